/-
Model of lindb's name → id assignment (package index): core Lean only.

  index/kv_store.go               indexKVStore      → `KvStore`, `KThread` (get-or-create step list)
  index/sequence.go               Sequence          → `Seq` (memory) + `Seq` (mmap copy, written by Sync)
  index/metric_schema_store.go    metricSchemaStore → `SchemaStore` (heap of shared *metric.Schema objects)
  index/metric_meta_database.go   metricMetaDatabase→ `Node` fields ns / metric / tagValue / schema / seq*
  index/metric_index_database.go  metricIndexDatabase → `Shard` (series dictionary, sequence cache, postings)
  tsdb/memdb/{metadata,index}_database.go: the metadata worker and one index worker per shard call
      the `gen*` operations; `PrepareFlush` runs on the worker, `Flush` in a goroutine of its own.

Names (namespace, metric name, tag key, tag value, field name, tag set of a series) are natural
numbers: the harness maps them to strings. The tag set number stands for `row.TagsHash()`
(xxhash of the sorted tags; collisions of the hash are outside the model).

The code variants that matter for C09 are parameters (`Cfg`); which variant the current source has
is decided by the regenerated facts (LinVerif/Generated/C09.lean, see Model/IdAssignCfg.lean).
-/
namespace LinVerif.IdAssign

/-! ## Dictionaries: bucket → name → id -/

abbrev Dict := Nat → Nat → Option Nat

namespace Dict
def empty : Dict := fun _ _ => none
def set (d : Dict) (b n i : Nat) : Dict :=
  fun b' n' => if b' = b ∧ n' = n then some i else d b' n'
/-- `count` consecutive names `lo …` of bucket `b` get the consecutive ids `base …` (what `count`
creations in a row do; one closure instead of `count`, for the big-bucket region) -/
def setRange (d : Dict) (b lo count base : Nat) : Dict :=
  fun b' n' => if b' = b ∧ lo ≤ n' ∧ n' < lo + count then some (base + (n' - lo)) else d b' n'
/-- newer entries (`top`) shadow older ones -/
def over (top bot : Dict) : Dict :=
  fun b n => match top b n with
    | some i => some i
    | none => bot b n
end Dict

/-! ## indexKVStore (index/kv_store.go) -/

/-- how `createValue` behaves once it holds the write lock -/
inductive KvVariant
  | noRecheck   -- current code: call createFn and insert, without looking again
  | recheckMem  -- look again in mutable/immutable under the lock
  | recheckFull -- look again in memory and retry the whole lookup when a flush completed meanwhile
  | recheckLocked -- look again in memory AND in the current snapshot, all under the write lock
  | recheckLockedCached -- … but read the bucket through the LRU bucket cache (not lindb's; see KStepStale)
  deriving DecidableEq, Repr

structure KvStore where
  mutable : Dict := Dict.empty
  /-- `mutable.IsEmpty()` -/
  mutEmpty : Bool := true
  /-- `immutable` (nil or a map) together with its `IsEmpty()` -/
  immutable : Option (Dict × Bool) := none
  /-- committed content of the kv family (what a reopened store reads) -/
  disk : Dict := Dict.empty
  /-- `s.snapshot`: the version readers use; replaced under the lock at the end of `Flush` -/
  snap : Dict := Dict.empty
  /-- number of completed flushes (ghost for the current code; a field in the `recheckFull` repair) -/
  flushSeq : Nat := 0

namespace KvStore

/-- `GetValueFromMem`: mutable, then immutable (read lock) -/
def lookupMem (s : KvStore) (b n : Nat) : Option Nat :=
  match s.mutable b n with
  | some i => some i
  | none => match s.immutable with
    | some (d, _) => d b n
    | none => none

/-- bucket of the current snapshot (through `bucketCache`, assumed coherent) -/
def lookupPersisted (s : KvStore) (b n : Nat) : Option Nat := s.snap b n

/-- the whole lookup of `getOrCreateValue` run without interruption -/
def lookup (s : KvStore) (b n : Nat) : Option Nat :=
  match s.lookupMem b n with
  | some i => some i
  | none => s.lookupPersisted b n

/-- `kvs[string(key)] = id` in `createValue` -/
def insert (s : KvStore) (b n i : Nat) : KvStore :=
  { s with mutable := s.mutable.set b n i, mutEmpty := false }

def insertRange (s : KvStore) (b lo count base : Nat) : KvStore :=
  { s with mutable := s.mutable.setRange b lo count base, mutEmpty := s.mutEmpty && (count == 0) }

/-- `PrepareFlush`: swap only when `immutable == nil` -/
def prepareFlush (s : KvStore) : KvStore :=
  match s.immutable with
  | none => { s with immutable := some (s.mutable, s.mutEmpty), mutable := Dict.empty, mutEmpty := true }
  | some _ => s

/-- forget an immutable map that `IsEmpty()` -/
def dropEmpty (s : KvStore) : KvStore :=
  match s.immutable with
  | some (_, true) => { s with immutable := none }
  | _ => s

/-- `PrepareFlush` in either shape: `se` = the test is `immutable == nil || immutable.IsEmpty()`
(lindb commit a4b424c); otherwise `immutable == nil` (an empty immutable map then stays for ever) -/
def prepareFlushE (s : KvStore) (se : Bool) : KvStore :=
  if se then s.dropEmpty.prepareFlush else s.prepareFlush

/-- `Flush` up to `flusher.Close()` (kv family commit). `needFlush` is false for a nil or an EMPTY
immutable map: then nothing happens — and an empty immutable map stays where it is. -/
def commit (s : KvStore) : KvStore :=
  match s.immutable with
  | some (d, false) => { s with disk := d.over s.disk }
  | _ => s

/-- `needFlush()` -/
def needFlush (s : KvStore) : Bool :=
  match s.immutable with
  | some (_, false) => true
  | _ => false

/-- the locked tail of `Flush`: new snapshot, `immutable = nil`, cache purge -/
def finish (s : KvStore) : KvStore :=
  match s.immutable with
  | some (_, false) => { s with snap := s.disk, immutable := none, flushSeq := s.flushSeq + 1 }
  | _ => s

def flush (s : KvStore) : KvStore := s.commit.finish

/-- reopen: memory is gone, the snapshot is the committed content -/
def recover (s : KvStore) : KvStore := { disk := s.disk, snap := s.disk }

end KvStore

/-! ### get-or-create as the code's step list (one thread) -/

inductive KPc
  | start
  | afterMem (seq : Nat)    -- missed in memory; `seq` = flushSeq read at the start
  | afterDisk (seq : Nat)   -- missed in the persisted bucket: about to call createValue
  | done (id : Nat)
  deriving DecidableEq, Repr

structure KThread where
  bucket : Nat
  name : Nat
  pc : KPc := .start
  deriving DecidableEq, Repr

/-- one atomic step of `getOrCreateValue` with createFn = "next value of counter `ctr`"
(`Sequence.Gen*Seq` = atomic Inc − 1). Returns the new store, counter and thread. -/
def kstep (v : KvVariant) (s : KvStore) (ctr : Nat) (t : KThread) : KvStore × Nat × KThread :=
  match t.pc with
  | .start =>
    match s.lookupMem t.bucket t.name with
    | some i => (s, ctr, { t with pc := .done i })
    | none => (s, ctr, { t with pc := .afterMem s.flushSeq })
  | .afterMem q =>
    match s.lookupPersisted t.bucket t.name with
    | some i => (s, ctr, { t with pc := .done i })
    | none => (s, ctr, { t with pc := .afterDisk q })
  | .afterDisk q =>
    -- createValue: write lock held for the whole step
    let create := (s.insert t.bucket t.name ctr, ctr + 1, { t with pc := KPc.done ctr })
    match v with
    | .noRecheck => create
    | .recheckMem =>
      match s.lookupMem t.bucket t.name with
      | some i => (s, ctr, { t with pc := .done i })
      | none => create
    | .recheckFull =>
      match s.lookupMem t.bucket t.name with
      | some i => (s, ctr, { t with pc := .done i })
      | none => if s.flushSeq = q then create else (s, ctr, { t with pc := .start })
    | .recheckLocked =>
      -- Flush's tail needs the write lock too: mutable, immutable and snapshot are one consistent view
      match s.lookupMem t.bucket t.name with
      | some i => (s, ctr, { t with pc := .done i })
      | none =>
        match s.lookupPersisted t.bucket t.name with
        | some i => (s, ctr, { t with pc := .done i })
        | none => create
    | .recheckLockedCached =>
      -- with a coherent cache this is `recheckLocked`; what a stale cache does to it is `KStepStale`
      match s.lookupMem t.bucket t.name with
      | some i => (s, ctr, { t with pc := .done i })
      | none =>
        match s.lookupPersisted t.bucket t.name with
        | some i => (s, ctr, { t with pc := .done i })
        | none => create
  | .done _ => (s, ctr, t)

/-- the same call with the two lookups in the other order: persisted bucket first (pc `afterMem` then
means "after the first lookup"), memory maps second. Not what lindb does; the regenerated call order
decides which of the two the interleaving theorems are about. -/
def kstepPF (v : KvVariant) (s : KvStore) (ctr : Nat) (t : KThread) : KvStore × Nat × KThread :=
  match t.pc with
  | .start =>
    match s.lookupPersisted t.bucket t.name with
    | some i => (s, ctr, { t with pc := .done i })
    | none => (s, ctr, { t with pc := .afterMem s.flushSeq })
  | .afterMem q =>
    match s.lookupMem t.bucket t.name with
    | some i => (s, ctr, { t with pc := .done i })
    | none => (s, ctr, { t with pc := .afterDisk q })
  | _ => kstep v s ctr t

/-- `memFirst` = the memory maps are consulted before the persisted bucket -/
def kstepO (memFirst : Bool) (v : KvVariant) : KvStore → Nat → KThread → KvStore × Nat × KThread :=
  if memFirst then kstep v else kstepPF v

/-- run one thread alone (step function `f`) until it is done -/
def krunG (f : KvStore → Nat → KThread → KvStore × Nat × KThread) : Nat → KvStore → Nat → KThread → KvStore × Nat × KThread
  | 0, s, c, t => (s, c, t)
  | fuel + 1, s, c, t =>
    match t.pc with
    | .done _ => (s, c, t)
    | _ => let r := f s c t; krunG f fuel r.1 r.2.1 r.2.2

/-- run one thread alone until it is done (`fuel` bounds the retries of `recheckFull`; without
interference the thread needs at most three steps) -/
def krun (v : KvVariant) : Nat → KvStore → Nat → KThread → KvStore × Nat × KThread
  | 0, s, c, t => (s, c, t)
  | fuel + 1, s, c, t =>
    match t.pc with
    | .done _ => (s, c, t)
    | _ => let r := kstep v s c t; krun v fuel r.1 r.2.1 r.2.2

/-- uninterrupted get-or-create: the id and whether it was created -/
def getOrCreate (v : KvVariant) (s : KvStore) (ctr b n : Nat) : KvStore × Nat × Option Nat :=
  let r := krun v 4 s ctr { bucket := b, name := n }
  match r.2.2.pc with
  | .done i => (r.1, r.2.1, some i)
  | _ => (r.1, r.2.1, none)

/-! ## Sequence (index/sequence.go) -/

structure Seq where
  ns : Nat := 0
  metric : Nat := 0
  tagKey : Nat := 0
  tagValue : Nat := 0
  deriving DecidableEq, Repr

/-! ## metricSchemaStore (index/metric_schema_store.go) -/

/-- `metric.Schema`: `Fields` / `TagKeys` as finite maps name ↦ (id, Persisted) with their lengths.
Within one object a name occurs at most once (every append follows a failed `Find` on the same
object under the store lock), so a map loses nothing. `order` keeps the names for printing only. -/
structure Schema where
  field : Nat → Option (Nat × Bool) := fun _ => none
  nFields : Nat := 0          -- len(Fields)
  nFieldsP : Nat := 0         -- … of which Persisted
  tagKey : Nat → Option (Nat × Bool) := fun _ => none
  nTagKeys : Nat := 0         -- len(TagKeys)
  nTagKeysP : Nat := 0        -- … of which Persisted
  order : List (Bool × Nat) := []   -- (isTagKey, name), display only

def markP (e : Option (Nat × Bool)) : Option (Nat × Bool) := e.map (fun p => (p.1, true))

/-- keep only entries that are not yet persisted, as they are read back (persisted) -/
def newOnly (e : Option (Nat × Bool)) : Option (Nat × Bool) :=
  match e with
  | some (i, false) => some (i, true)
  | _ => none

def orElse (a b : Option (Nat × Bool)) : Option (Nat × Bool) :=
  match a with
  | some x => some x
  | none => b

namespace Schema
/-- `NeedWrite`: some field or tag key is not persisted -/
def needWrite (s : Schema) : Bool := s.nFieldsP < s.nFields || s.nTagKeysP < s.nTagKeys
/-- `MarkPersisted` -/
def markPersisted (s : Schema) : Schema :=
  { s with field := fun n => markP (s.field n), nFieldsP := s.nFields,
           tagKey := fun n => markP (s.tagKey n), nTagKeysP := s.nTagKeys }
/-- `MarkPersistedPrefix` (repair): only the items that `pre` (the object when it was written) had -/
def markPrefix (s pre : Schema) : Schema :=
  { s with field := fun n => match pre.field n with
             | some _ => markP (s.field n)
             | none => s.field n,
           nFieldsP := pre.nFields,
           tagKey := fun n => match pre.tagKey n with
             | some _ => markP (s.tagKey n)
             | none => s.tagKey n,
           nTagKeysP := pre.nTagKeys }
/-- what `Schema.Write` emits (the not yet persisted items), as `UnmarshalFromPersist` reads it back -/
def increment (s : Schema) : Schema :=
  { field := fun n => newOnly (s.field n), nFields := s.nFields - s.nFieldsP, nFieldsP := s.nFields - s.nFieldsP,
    tagKey := fun n => newOnly (s.tagKey n), nTagKeys := s.nTagKeys - s.nTagKeysP, nTagKeysP := s.nTagKeys - s.nTagKeysP,
    order := s.order.filter (fun p => match (if p.1 then s.tagKey p.2 else s.field p.2) with
      | some (_, false) => true
      | _ => false) }
/-- `snapshot.Load` appends the increments of all files to one Schema -/
def append (a b : Schema) : Schema :=
  { field := fun n => orElse (a.field n) (b.field n), nFields := a.nFields + b.nFields, nFieldsP := a.nFieldsP + b.nFieldsP,
    tagKey := fun n => orElse (a.tagKey n) (b.tagKey n), nTagKeys := a.nTagKeys + b.nTagKeys, nTagKeysP := a.nTagKeysP + b.nTagKeysP,
    order := a.order ++ b.order }
/-- `Fields.Find(name)` -/
def findField (s : Schema) (n : Nat) : Option Nat := (s.field n).map (·.1)
/-- `TagKeys.Find(key)` -/
def findTagKey (s : Schema) (n : Nat) : Option Nat := (s.tagKey n).map (·.1)
def addField (s : Schema) (n i : Nat) : Schema :=
  { s with field := fun n' => if n' = n then some (i, false) else s.field n', nFields := s.nFields + 1,
           order := s.order ++ [(false, n)] }
def addTagKey (s : Schema) (n i : Nat) : Schema :=
  { s with tagKey := fun n' => if n' = n then some (i, false) else s.tagKey n', nTagKeys := s.nTagKeys + 1,
           order := s.order ++ [(true, n)] }
end Schema

/-- where `genFieldID` / `genTagKeyID` read the schema -/
inductive SchemaVariant
  | snapshotOutside -- current code: `GetSchema` before `s.lock.Lock()`
  | lookupLocked    -- repair: memory → kv lookup after taking the lock
  deriving DecidableEq, Repr

/-- `*metric.Schema` objects are shared by pointer between `mutable`, `immutable` and callers:
a heap of objects (each allocated for one metric, `owner`), the two maps hold object numbers.
(The LRU cache is assumed coherent and left out.) -/
structure SchemaStore where
  heap : Nat → Schema := fun _ => {}
  owner : Nat → Nat := fun _ => 0
  nobj : Nat := 0
  cur : Nat → Option Nat := fun _ => none          -- `mutable`: metric id → object
  curEmpty : Bool := true
  frz : Option ((Nat → Option Nat) × Bool) := none -- `immutable` and its IsEmpty()
  disk : Nat → Option Schema := fun _ => none      -- all persisted increments of a metric, appended
  /-- the LRU schema cache (metric id → object), filled by readers (`GetSchema`), purged by `Flush`.
  The create path (`getSchemaLocked`) does not consult it; see `gen_ignores_cache`. -/
  cache : Nat → Option Nat := fun _ => none

/-- the pointer `GetSchema` returned -/
inductive SPtr
  | nil
  | obj (o : Nat)
  deriving DecidableEq, Repr

namespace SchemaStore

def frzMap (s : SchemaStore) : Nat → Option Nat :=
  match s.frz with
  | some (f, _) => f
  | none => fun _ => none

def memLookup (s : SchemaStore) (m : Nat) : Option Nat :=
  match s.cur m with
  | some o => some o
  | none => s.frzMap m

def alloc (s : SchemaStore) (m : Nat) (sc : Schema) : SchemaStore × Nat :=
  ({ s with heap := fun o => if o = s.nobj then sc else s.heap o,
            owner := fun o => if o = s.nobj then m else s.owner o, nobj := s.nobj + 1 }, s.nobj)

/-- `GetSchema`: memory (mutable, immutable), else the kv family (a fresh object), else nil -/
def getSchema (s : SchemaStore) (m : Nat) : SchemaStore × SPtr :=
  match s.memLookup m with
  | some o => (s, .obj o)
  | none => match s.disk m with
    | some sc => let r := s.alloc m sc; (r.1, .obj r.2)
    | none => (s, .nil)

/-- `GetSchema` as readers (queries, the `schema` op) use it: memory, else the LRU cache, else the kv
family (a fresh object, which is then added to the cache) -/
def getSchemaReader (s : SchemaStore) (m : Nat) : SchemaStore × SPtr :=
  match s.memLookup m with
  | some o => (s, .obj o)
  | none => match s.cache m with
    | some o => (s, .obj o)
    | none => match s.disk m with
      | some sc => let r := s.alloc m sc
                   ({ r.1 with cache := fun j => if j = m then some r.2 else r.1.cache j }, .obj r.2)
      | none => (s, .nil)

/-- the lookup of a create path that TRUSTS the LRU cache before the kv family (not lindb's) -/
def getSchemaCached (s : SchemaStore) (m : Nat) : SchemaStore × SPtr :=
  match s.memLookup m with
  | some o => (s, .obj o)
  | none => match s.cache m with
    | some o => (s, .obj o)
    | none => s.getSchema m

/-- lines `if schema == nil {…}` and `s.mutable.PutIfNotExist(id, schema)` -/
def adopt (s : SchemaStore) (m : Nat) (p : SPtr) : SchemaStore × Nat :=
  let r : SchemaStore × Nat := match p with
    | .obj o => (s, o)
    | .nil => s.alloc m {}
  match r.1.cur m with
  | some _ => r
  | none => ({ r.1 with cur := fun m' => if m' = m then some r.2 else r.1.cur m', curEmpty := false }, r.2)

def setObj (s : SchemaStore) (o : Nat) (sc : Schema) : SchemaStore :=
  { s with heap := fun o' => if o' = o then sc else s.heap o' }

def prepareFlush (s : SchemaStore) : SchemaStore :=
  match s.frz with
  | none => { s with frz := some (s.cur, s.curEmpty), cur := fun _ => none, curEmpty := true }
  | some _ => s

def dropEmpty (s : SchemaStore) : SchemaStore :=
  match s.frz with
  | some (_, true) => { s with frz := none }
  | _ => s

def prepareFlushE (s : SchemaStore) (se : Bool) : SchemaStore :=
  if se then s.dropEmpty.prepareFlush else s.prepareFlush

/-- `Flush` up to `flusher.Close()`: every schema of the immutable map that needs it is written -/
def commit (s : SchemaStore) : SchemaStore :=
  match s.frz with
  | some (f, false) =>
    { s with disk := fun m => match f m with
        | some o => if (s.heap o).needWrite then some ((s.heap o).increment.append ((s.disk m).getD {})) else s.disk m
        | none => s.disk m }
  | _ => s

/-- the locked tail of `Flush`: MarkPersisted on every schema of the immutable map, `immutable = nil` -/
def finish (s : SchemaStore) : SchemaStore :=
  match s.frz with
  | some (f, false) =>
    { s with heap := fun o => if f (s.owner o) = some o then (s.heap o).markPersisted else s.heap o, frz := none,
             cache := fun _ => none }
  | _ => s

def flush (s : SchemaStore) : SchemaStore := s.commit.finish

/-- repair of the locked tail: mark persisted only what was there when the schema was written
(`pre` = the objects as they were at the kv commit) -/
def finishWritten (s : SchemaStore) (pre : Nat → Schema) : SchemaStore :=
  match s.frz with
  | some (f, false) =>
    { s with heap := fun o => if f (s.owner o) = some o then (s.heap o).markPrefix (pre o) else s.heap o, frz := none,
             cache := fun _ => none }
  | _ => s

def recover (s : SchemaStore) : SchemaStore := { disk := s.disk }

end SchemaStore

inductive GenOut
  | id (i : Nat)
  | tooManyFields
  | tooManyTags
  | tooManySeries
  | stuck
  deriving DecidableEq, Repr

/-- answer of `GenMetricID` when the namespace / metric-name limits are on -/
inductive LimOut
  | out (o : GenOut)
  | tooManyNamespaces
  | tooManyMetrics
  deriving DecidableEq, Repr

structure Limits where
  maxFields : Nat := 256     -- Limits.MaxFieldsPerMetric
  maxTags : Nat := 32        -- Limits.MaxTagsPerMetric
  maxSeries : Nat := 200000  -- Limits.MaxSeriesPerMetric
  maxNamespaces : Nat := 0   -- Limits.MaxNamespaces (0 = no check)
  maxMetrics : Nat := 0      -- Limits.MaxMetrics (0 = no check)
  deriving DecidableEq, Repr

/-- the locked part of `genFieldID` on the schema pointer `p` -/
def fieldLocked (lim : Limits) (s : SchemaStore) (m f : Nat) (p : SPtr) : SchemaStore × GenOut :=
  let r := s.adopt m p
  let sc := r.1.heap r.2
  match sc.findField f with
  | some i => (r.1, .id i)
  | none =>
    if sc.nFields ≥ 255 ∨ (lim.maxFields > 0 ∧ lim.maxFields < sc.nFields) then (r.1, .tooManyFields)
    else (r.1.setObj r.2 (sc.addField f sc.nFields), .id sc.nFields)

/-- the locked part of `genTagKeyID`; createFn = `Sequence.GenTagKeySeq` -/
def tagKeyLocked (lim : Limits) (s : SchemaStore) (ctr m k : Nat) (p : SPtr) : SchemaStore × Nat × GenOut :=
  let r := s.adopt m p
  let sc := r.1.heap r.2
  match sc.findTagKey k with
  | some i => (r.1, ctr, .id i)
  | none =>
    if sc.nTagKeys ≥ 255 ∨ (lim.maxTags > 0 ∧ lim.maxTags < sc.nTagKeys) then (r.1, ctr, .tooManyTags)
    else (r.1.setObj r.2 (sc.addTagKey k ctr), ctr + 1, .id ctr)

/-- the pointer the locked part works on: the caller's snapshot, or a lookup under the lock -/
def lockedPtr (v : SchemaVariant) (s : SchemaStore) (m : Nat) (p : SPtr) : SchemaStore × SPtr :=
  match v with
  | .snapshotOutside => (s, p)
  | .lookupLocked => s.getSchema m

/-- uninterrupted `genFieldID` -/
def genField (v : SchemaVariant) (lim : Limits) (s : SchemaStore) (m f : Nat) : SchemaStore × GenOut :=
  let g := s.getSchema m
  let l := lockedPtr v g.1 m g.2
  fieldLocked lim l.1 m f l.2

/-- uninterrupted `genTagKeyID` -/
def genTagKey (v : SchemaVariant) (lim : Limits) (s : SchemaStore) (ctr m k : Nat) : SchemaStore × Nat × GenOut :=
  let g := s.getSchema m
  let l := lockedPtr v g.1 m g.2
  tagKeyLocked lim l.1 ctr m k l.2

/-! ## metricIndexDatabase (index/metric_index_database.go): one per shard -/

/-- `invertedIndex` / `forwardIndex`: mutable / immutable / kv family of posting entries -/
structure Layers (α : Type) where
  cur : List α := []             -- `mutable`
  frz : Option (List α) := none  -- `immutable`
  disk : List α := []

namespace Layers
variable {α : Type}
def put (l : Layers α) (a : α) : Layers α := { l with cur := a :: l.cur }
def prepareFlush (l : Layers α) : Layers α :=
  match l.frz with
  | none => { l with frz := some l.cur, cur := [] }
  | some _ => l
def dropEmpty (l : Layers α) : Layers α :=
  match l.frz with
  | some [] => { l with frz := none }
  | _ => l
def prepareFlushE (l : Layers α) (se : Bool) : Layers α :=
  if se then l.dropEmpty.prepareFlush else l.prepareFlush
/-- `flush`: nothing happens for a nil or empty immutable map -/
def flush (l : Layers α) : Layers α :=
  match l.frz with
  | some (a :: r) => { l with disk := (a :: r) ++ l.disk, frz := none }
  | _ => l
def all (l : Layers α) : List α := l.cur ++ (l.frz.getD []) ++ l.disk
def recover (l : Layers α) : Layers α := { disk := l.disk }
end Layers

structure Shard where
  series : KvStore := {}                     -- tags hash → series id, bucket = metric id
  seqCache : Nat → Option Nat := fun _ => none  -- sequenceCache (LRU; eviction / expiry = `Shard.evictSeq`, `FOp.evictSeq`)
  minv : Layers (Nat × Nat) := {}            -- metricInverted: (metric id, series id)
  fwd : Layers (Nat × Nat × Nat) := {}       -- forward: (tag key id, tag value id, series id)
  inv : Layers (Nat × Nat) := {}             -- inverted: (tag value id, series id)

def maxList : List Nat → Nat
  | [] => 0
  | a :: l => max a (maxList l)

namespace Shard

/-- `getSeriesIDs(metricID)` of metricInverted: kv family ∪ mutable ∪ immutable -/
def metricSeries (sh : Shard) (m : Nat) : List Nat := (sh.minv.all.filter (·.1 = m)).map (·.2)

/-- `createSeriesID` -/
def createSeriesID (sh : Shard) (m : Nat) : Nat :=
  match sh.seqCache m with
  | some c => c + 1
  | none => match sh.metricSeries m with
    | [] => 0
    | a :: l => maxList (a :: l) + 1

def prepareFlush (sh : Shard) : Shard :=
  { sh with minv := sh.minv.prepareFlush, fwd := sh.fwd.prepareFlush, inv := sh.inv.prepareFlush,
            series := sh.series.prepareFlush }

def dropEmpty (sh : Shard) : Shard :=
  { sh with minv := sh.minv.dropEmpty, fwd := sh.fwd.dropEmpty, inv := sh.inv.dropEmpty,
            series := sh.series.dropEmpty }

/-- `metricIndexDatabase.PrepareFlush` in either shape (see `KvStore.prepareFlushE`) -/
def prepareFlushE (sh : Shard) (se : Bool) : Shard :=
  if se then sh.dropEmpty.prepareFlush else sh.prepareFlush

/-- step `i` of `metricIndexDatabase.Flush` (source order) -/
def flushStep (sh : Shard) : Nat → Shard
  | 0 => { sh with minv := sh.minv.flush }
  | 1 => { sh with fwd := sh.fwd.flush }
  | 2 => { sh with inv := sh.inv.flush }
  | 3 => { sh with series := sh.series.flush }
  | _ => sh

def recover (sh : Shard) : Shard :=
  { series := sh.series.recover, minv := sh.minv.recover, fwd := sh.fwd.recover, inv := sh.inv.recover }

/-- `sequenceCache` (an `expirable.LRU` with 100000 entries and a one-hour TTL) drops the entry of metric `m`:
eviction by capacity or expiry by time, at any moment. The next `createSeriesID m` takes the miss branch
(`metricInverted.getSeriesIDs`: kv family ∪ mutable ∪ immutable). -/
def evictSeq (sh : Shard) (m : Nat) : Shard :=
  { sh with seqCache := fun j => if j = m then none else sh.seqCache j }

end Shard

/-! ## The node: one metadata database shared by the shards -/

structure Cfg where
  kv : KvVariant := .noRecheck
  schema : SchemaVariant := .snapshotOutside
  /-- repair: `Gen*Seq` stores the new counter value into the mmap page at allocation time -/
  seqWriteThrough : Bool := false
  /-- repair: the series limit is checked inside createFn, before anything is stored -/
  seriesLimitFirst : Bool := false
  /-- repair: the schema flush marks persisted only what it wrote -/
  schemaMarkWritten : Bool := false
  /-- `PrepareFlush` also swaps when the immutable map is empty (lindb commit a4b424c) -/
  prepareSwapsEmpty : Bool := false
  /-- `getOrCreateValue` looks into the memory maps before the persisted bucket -/
  kvMemFirst : Bool := true
  /-- memdb index worker: `indexDB.PrepareFlush()` runs inline in the row-handler goroutine (between two rows),
  not in the background flush goroutine -/
  memdbPrepareInline : Bool := true
  /-- memdb `GetOrCreateTimeSeriesIndex` takes `idb.lock` exclusively (`Lock`, lindb) around its second check + store -/
  memdbExclusive : Bool := true
  /-- repair: the lock-free lookup adds a bucket to the LRU cache only while its snapshot is still current -/
  kvCacheAddGuarded : Bool := false
  /-- the schema lookup of the create path (`getSchemaLocked`) consults the LRU cache (lindb's does not) -/
  schemaLockedUsesCache : Bool := false
  /-- `metricIndexDatabase.Flush` returns at once when one of its steps fails (`if err := step(); err != nil
  { return err }` around every step, lindb) — otherwise the remaining steps still run (e.g. `errors.Join`) -/
  indexFlushAborts : Bool := true
  /-- the LRU bucket cache of `indexKVStore` releases a bucket (its tries go back to the pool) when it evicts / purges it -/
  kvCacheReleasesOnEvict : Bool := false
  deriving DecidableEq, Repr

structure Node where
  lim : Limits := {}
  seqMem : Seq := {}
  seqMmap : Seq := {}
  ns : KvStore := {}
  metric : KvStore := {}
  tagValue : KvStore := {}
  schema : SchemaStore := {}
  nShards : Nat := 1
  shards : Nat → Shard := fun _ => {}

namespace Node

def setShard (nd : Node) (k : Nat) (sh : Shard) : Node :=
  { nd with shards := fun j => if j = k then sh else nd.shards j }

/-- after an allocation: the mmap copy follows only in the write-through variant -/
def afterAlloc (c : Cfg) (nd : Node) : Node :=
  if c.seqWriteThrough then { nd with seqMmap := nd.seqMem } else nd

/-- `GenMetricID(namespace, metricName)`; `nb` = `uint32(namespace[0])` -/
def genMetric (c : Cfg) (nd : Node) (nb nsName name : Nat) : Node × GenOut :=
  let r1 := getOrCreate c.kv nd.ns nd.seqMem.ns nb nsName
  let nd := afterAlloc c { nd with ns := r1.1, seqMem := { nd.seqMem with ns := r1.2.1 } }
  match r1.2.2 with
  | none => (nd, .stuck)
  | some nsID =>
    let r2 := getOrCreate c.kv nd.metric nd.seqMem.metric nsID name
    let nd := afterAlloc c { nd with metric := r2.1, seqMem := { nd.seqMem with metric := r2.2.1 } }
    match r2.2.2 with
    | none => (nd, .stuck)
    | some i => (nd, .id i)

/-- `createValue` whose createFn returns an error: the bucket's map was made before createFn ran
(`s.mutable.Put(bucketID, kvs)`, so `mutable.IsEmpty()` is false from now on), nothing is stored under the
name, no counter moves -/
def _root_.LinVerif.IdAssign.KvStore.refused (s : KvStore) : KvStore := { s with mutEmpty := false }

/-- `GenMetricID` with the namespace / metric-name limits: createFn of the namespace dictionary is `genNSID`
(`EnableNamespacesCheck() && MaxNamespaces < sequence.GetNamespaceSeq()` → ErrTooManyNamespace), of the
metric dictionary `genMetricID` (the same with MaxMetrics). createFn runs only when the name is in neither
memory map nor the snapshot; the counter value it compares with is the number of ids handed out so far. -/
def genMetricLim (c : Cfg) (nd : Node) (nb nsName name : Nat) : Node × LimOut :=
  if (nd.ns.lookup nb nsName).isNone ∧ nd.lim.maxNamespaces > 0 ∧ nd.lim.maxNamespaces < nd.seqMem.ns then
    ({ nd with ns := nd.ns.refused }, .tooManyNamespaces)
  else
    let r := getOrCreate c.kv nd.ns nd.seqMem.ns nb nsName
    let nd2 := afterAlloc c { nd with ns := r.1, seqMem := { nd.seqMem with ns := r.2.1 } }
    match r.2.2 with
    | none => (nd2, .out .stuck)
    | some nsID =>
      if (nd2.metric.lookup nsID name).isNone ∧ nd.lim.maxMetrics > 0 ∧ nd.lim.maxMetrics < nd2.seqMem.metric then
        ({ nd2 with metric := nd2.metric.refused }, .tooManyMetrics)
      else
        let g := nd.genMetric c nb nsName name
        (g.1, .out g.2)

/-- `GetMetricID` (lookup only) -/
def getMetric (nd : Node) (nb nsName name : Nat) : Option Nat :=
  match nd.ns.lookup nb nsName with
  | none => none
  | some nsID => nd.metric.lookup nsID name

def genFieldID (c : Cfg) (nd : Node) (m f : Nat) : Node × GenOut :=
  let r := genField c.schema nd.lim nd.schema m f
  ({ nd with schema := r.1 }, r.2)

def genTagKeyID (c : Cfg) (nd : Node) (m k : Nat) : Node × GenOut :=
  let r := genTagKey c.schema nd.lim nd.schema nd.seqMem.tagKey m k
  (afterAlloc c { nd with schema := r.1, seqMem := { nd.seqMem with tagKey := r.2.1 } }, r.2.2)

def genTagValueID (c : Cfg) (nd : Node) (tk v : Nat) : Node × GenOut :=
  let r := getOrCreate c.kv nd.tagValue nd.seqMem.tagValue tk v
  let nd := afterAlloc c { nd with tagValue := r.1, seqMem := { nd.seqMem with tagValue := r.2.1 } }
  match r.2.2 with
  | none => (nd, .stuck)
  | some i => (nd, .id i)

/-- `GetSchema` (lookup only; loading from the kv family allocates an object and fills the cache) -/
def getSchema (nd : Node) (m : Nat) : Node × Option Schema :=
  let r := nd.schema.getSchemaReader m
  match r.2 with
  | .nil => ({ nd with schema := r.1 }, none)
  | .obj o => ({ nd with schema := r.1 }, some (r.1.heap o))

/-- `buildInvertIndex`: for every tag of the row -/
def buildInverted (c : Cfg) (shard m sid : Nat) : Node → List (Nat × Nat) → Node
  | nd, [] => nd
  | nd, (k, v) :: rest =>
    let r := genTagKeyID c nd m k
    match r.2 with
    | .id tk =>
      let r2 := genTagValueID c r.1 tk v
      match r2.2 with
      | .id tv =>
        let sh := r2.1.shards shard
        let sh := { sh with inv := sh.inv.put (tv, sid), fwd := sh.fwd.put (tk, tv, sid) }
        buildInverted c shard m sid (r2.1.setShard shard sh) rest
      | _ => buildInverted c shard m sid r2.1 rest
    | _ => buildInverted c shard m sid r.1 rest

/-- `GenSeriesID(metricID, row)` on one shard; `ts` stands for `row.TagsHash()` -/
def genSeries (c : Cfg) (nd : Node) (shard m ts : Nat) (tags : List (Nat × Nat)) : Node × GenOut :=
  let sh := nd.shards shard
  match sh.series.lookup m ts with
  | some i => (nd, .id i)
  | none =>
    let sid := sh.createSeriesID m
    let over := nd.lim.maxSeries > 0 ∧ nd.lim.maxSeries < sid
    if c.seriesLimitFirst ∧ over then
      -- createFn returned ErrTooManySeries: createValue made the bucket map, stored nothing
      (nd.setShard shard { sh with series := { sh.series with mutEmpty := false } }, .tooManySeries)
    else
      let sh := { sh with series := sh.series.insert m ts sid }
      if over then (nd.setShard shard sh, .tooManySeries)
      else
        let sh := { sh with seqCache := fun j => if j = m then some sid else sh.seqCache j,
                            minv := sh.minv.put (m, sid) }
        (buildInverted c shard m sid (nd.setShard shard sh) tags, .id sid)

/-- `metricMetaDatabase.PrepareFlush` (old shape) -/
def metaPrepare (nd : Node) : Node :=
  { nd with ns := nd.ns.prepareFlush, metric := nd.metric.prepareFlush,
            tagValue := nd.tagValue.prepareFlush, schema := nd.schema.prepareFlush }

def metaDropEmpty (nd : Node) : Node :=
  { nd with ns := nd.ns.dropEmpty, metric := nd.metric.dropEmpty,
            tagValue := nd.tagValue.dropEmpty, schema := nd.schema.dropEmpty }

/-- `metricMetaDatabase.PrepareFlush` in either shape -/
def metaPrepareE (nd : Node) (se : Bool) : Node :=
  if se then nd.metaDropEmpty.metaPrepare else nd.metaPrepare

/-- step `i` of `metricMetaDatabase.Flush` (source order): Sync, ns, metric, schema, tag values -/
def metaFlushStep (nd : Node) : Nat → Node
  | 0 => { nd with seqMmap := nd.seqMem }
  | 1 => { nd with ns := nd.ns.flush }
  | 2 => { nd with metric := nd.metric.flush }
  | 3 => { nd with schema := nd.schema.flush }
  | 4 => { nd with tagValue := nd.tagValue.flush }
  | _ => nd

/-- the first `k` steps of a metadata flush -/
def metaFlushPrefix (nd : Node) (k : Nat) : Node := (List.range k).foldl metaFlushStep nd

def metaFlush (nd : Node) : Node := nd.metaFlushPrefix 5

/-- A metadata flush in which the first dictionary flush that actually writes (`needFlush`) FAILS at its
kv family commit: `indexKVStore.Flush` returns the error before touching `immutable` / `snapshot`, and
`metricMetaDatabase.Flush` returns it at once — the steps before are done, the failing step and the
steps after it change nothing. Returns the number of steps that ran (5 = nothing needed a flush,
no failure). -/
def metaFlushFailAt (nd : Node) : Nat :=
  if nd.ns.needFlush then 1 else if nd.metric.needFlush then 2 else if nd.tagValue.needFlush then 4 else 5

/-- three-party witness for the LRU bucket cache of the metric dictionary. The bucket (namespace id) is
persisted; name `x` is frozen by PrepareFlush; a lookup of an unknown name has taken the old snapshot and
is stopped before `bucketCache.Add`; the metadata flush persists `x`, installs the new snapshot and purges
the cache; the lookup continues and caches the bucket of the OLD snapshot (answer: not found). Then, with
no concurrency left, `GenMetricID(ns, x)`: the lock-free lookup misses through the stale bucket; lindb's
createValue reads `s.snapshot` under the lock and finds `x`; a createValue that trusts the cache creates
a second id — unless `bucketCache.Add` is guarded (fix 4de81d7): then no stale bucket is ever cached. Returns the node and the answer for `x`. -/
def bucketCacheRace (c : Cfg) (nd : Node) (nb nsName x : Nat) : Node × GenOut :=
  let nd1 := nd.metaFlush
  match c.kv, c.kvCacheAddGuarded with
  | .recheckLockedCached, false =>
    match nd1.ns.lookup nb nsName with
    | none => (nd1, .stuck)
    | some nsID =>
      match nd1.metric.lookupMem nsID x with
      | some i => (nd1, .id i)
      | none =>
        let i := nd1.seqMem.metric
        (afterAlloc c { nd1 with metric := nd1.metric.insert nsID x i, seqMem := { nd1.seqMem with metric := i + 1 } }, .id i)
  | _, _ => nd1.genMetric c nb nsName x

/-- witness for a cached bucket that is released under a lock-free reader (`GenTagValueID`; bucket = tag key id).
The reader has missed in memory and holds the bucket of `tk` (from the LRU cache), it is stopped before
`bucket.GetValue`; a flush purges the cache — with an eviction callback that calls `TrieBucket.Release` the
bucket's tries go back to `trie`'s pool; another lookup loads the bucket of `tkOther`, which takes the same trie
object out of the pool and unmarshals ITS content into it; the reader continues and answers from the bucket of
`tkOther` in the current snapshot (when the value is not there: not found → `createValue`, whose locked re-check
finds the right id). `nd` is the state after the flush. Without the callback the reader's bucket stays what it was. -/
def bucketReleaseRace (c : Cfg) (nd : Node) (tk v tkOther : Nat) : Node × GenOut :=
  if c.kvCacheReleasesOnEvict then
    match nd.tagValue.snap tkOther v with
    | some i => (nd, .id i)
    | none => nd.genTagValueID c tk v
  else nd.genTagValueID c tk v

/-- witness schedule reader ‖ writer ‖ flush on a schema that is persisted and not in memory:
a reader's `GetSchema(m)` has read the kv family and is stopped before `cache.Add`; a writer creates
field `fb`; PrepareFlush + Flush (commit, purge of the cache); the reader adds its — now stale — object
to the cache; a writer creates field `fc`. lindb's create path reads memory, then the kv family; a create
path that trusts the cache extends the stale object and hands `fb`'s id out again. -/
def schemaCacheRace (c : Cfg) (nd : Node) (m fb fc : Nat) : Node × GenOut × GenOut :=
  let rd := nd.schema.getSchema m
  let fromKV := (nd.schema.memLookup m).isNone
  let nd1 : Node := { nd with schema := rd.1 }
  let rb := nd1.genFieldID c m fb
  let nd2 := (rb.1.metaPrepareE c.prepareSwapsEmpty).metaFlush
  let nd3 : Node := match rd.2 with
    | .obj o => if fromKV then { nd2 with schema := { nd2.schema with cache := fun j => if j = m then some o else nd2.schema.cache j } } else nd2
    | .nil => nd2
  if c.schemaLockedUsesCache then
    let l := nd3.schema.getSchemaCached m
    let r := fieldLocked nd3.lim l.1 m fc l.2
    ({ nd3 with schema := r.1 }, rb.2, r.2)
  else
    let rc := nd3.genFieldID c m fc
    (rc.1, rb.2, rc.2)

/-- a metadata flush during which `GenFieldID(m, f)` runs between the kv commit of the schema family
and the locked tail of `metricSchemaStore.Flush` (the flush runs in a goroutine of its own) -/
def metaFlushFieldInWindow (c : Cfg) (nd : Node) (m f : Nat) : Node × GenOut :=
  let nd1 := nd.metaFlushPrefix 3
  let pre := nd1.schema.heap
  let nd2 := { nd1 with schema := nd1.schema.commit }
  let r := nd2.genFieldID c m f
  let sch := if c.schemaMarkWritten then r.1.schema.finishWritten pre else r.1.schema.finish
  (({ r.1 with schema := sch } : Node).metaFlushStep 4, r.2)

/-- witness schedule "lookup ‖ flush": `GenMetricID(ns, name)` for names that exist, with a whole
metadata flush running while the caller sits between taking the snapshot and the next lookup.
With the memory maps first the caller never gets that far when the name is in memory (the flush then
simply runs afterwards); with the persisted bucket first the caller is stopped at the first store whose
persisted lookup misses, the flush empties the memory maps, and the caller creates a second id. -/
def lookupFlushRace (c : Cfg) (nd : Node) (nb nsName name : Nat) : Node × GenOut :=
  if c.kvMemFirst then
    let r := nd.genMetric c nb nsName name
    (r.1.metaFlush, r.2)
  else
    let a1 := kstepPF c.kv nd.ns nd.seqMem.ns { bucket := nb, name := nsName }
    match a1.2.2.pc with
    | .done nsID =>
      -- the namespace is persisted already: the caller is stopped in the metric store
      let b1 := kstepPF c.kv nd.metric nd.seqMem.metric { bucket := nsID, name := name }
      match b1.2.2.pc with
      | .done i => (nd.metaFlush, .id i)
      | _ =>
        let nd1 := nd.metaFlush
        let b2 := krunG (kstepPF c.kv) 8 nd1.metric nd1.seqMem.metric b1.2.2
        let nd2 := afterAlloc c { nd1 with metric := b2.1, seqMem := { nd1.seqMem with metric := b2.2.1 } }
        match b2.2.2.pc with
        | .done i => (nd2, .id i)
        | _ => (nd2, .stuck)
    | _ =>
      let nd1 := nd.metaFlush
      let a2 := krunG (kstepPF c.kv) 8 nd1.ns nd1.seqMem.ns a1.2.2
      let nd2 := afterAlloc c { nd1 with ns := a2.1, seqMem := { nd1.seqMem with ns := a2.2.1 } }
      match a2.2.2.pc with
      | .done nsID =>
        let r2 := getOrCreate c.kv nd2.metric nd2.seqMem.metric nsID name
        let nd3 := afterAlloc c { nd2 with metric := r2.1, seqMem := { nd2.seqMem with metric := r2.2.1 } }
        match r2.2.2 with
        | some i => (nd3, .id i)
        | none => (nd3, .stuck)
      | _ => (nd2, .stuck)

def indexPrepare (nd : Node) (shard : Nat) : Node := nd.setShard shard (nd.shards shard).prepareFlush

def indexDropEmpty (nd : Node) (shard : Nat) : Node := nd.setShard shard (nd.shards shard).dropEmpty

def indexPrepareE (nd : Node) (shard : Nat) (se : Bool) : Node :=
  if se then (nd.indexDropEmpty shard).indexPrepare shard else nd.indexPrepare shard

def indexFlushPrefix (nd : Node) (shard k : Nat) : Node :=
  nd.setShard shard ((List.range k).foldl Shard.flushStep (nd.shards shard))

def indexFlush (nd : Node) (shard : Nat) : Node := nd.indexFlushPrefix shard 4

/-- does step `i` of the index flush commit its kv family (is there something frozen to write)? -/
def shardCommits (sh : Shard) : Nat → Bool
  | 0 => match sh.minv.frz with | some (_ :: _) => true | _ => false
  | 1 => match sh.fwd.frz with | some (_ :: _) => true | _ => false
  | 2 => match sh.inv.frz with | some (_ :: _) => true | _ => false
  | 3 => sh.series.needFlush
  | _ => false

/-- the number of steps of the index flush that are complete when its (j+1)-th kv family commit is about
to be made (4 = the flush makes fewer commits than that and runs to its end) -/
def stepsBeforeCommit (sh : Shard) (j : Nat) : Nat :=
  let rec go (i fuel j : Nat) : Nat :=
    match fuel with
    | 0 => 4
    | fuel + 1 =>
      if i ≥ 4 then 4
      else if shardCommits sh i then (if j = 0 then i else go (i + 1) fuel (j - 1))
      else go (i + 1) fuel j
  go 0 5 j

/-- `metricIndexDatabase.Flush` with ONE fault: `steps` = the steps in the order the source runs them
(numbers of `Shard.flushStep`), `k` = the step whose kv family commit fails. A step that has nothing to
write (`needFlush()` false) returns nil before it builds a flusher, so it cannot fail. The failing step
changes nothing (its `immutable` table stays, see `kvFlushErrBranchCalls` / `invertedFlushErrBranchCalls`).
`abort` = the control flow of Flush: the error is returned at once (lindb) — or the remaining steps
still run. Returns the shard and whether Flush reports an error. -/
def flushFaultGo (abort : Bool) (k : Nat) : List Nat → Shard → Shard × Bool
  | [], sh => (sh, false)
  | i :: rest, sh =>
    if i = k ∧ shardCommits sh i = true then
      (if abort then sh else (flushFaultGo abort k rest sh).1, true)
    else flushFaultGo abort k rest (sh.flushStep i)

def indexFlushFault (nd : Node) (abort : Bool) (steps : List Nat) (shard k : Nat) : Node × Bool :=
  let r := flushFaultGo abort k steps (nd.shards shard)
  (nd.setShard shard r.1, r.2)

/-- `count` GenTagValueID calls for the new names `lo …` of tag key `tk` in a row (big-bucket region;
the harness uses these names through this operation only) -/
def genTagValueRange (c : Cfg) (nd : Node) (tk lo count : Nat) : Node × Nat :=
  let base := nd.seqMem.tagValue
  (afterAlloc c { nd with tagValue := nd.tagValue.insertRange tk lo count base,
                          seqMem := { nd.seqMem with tagValue := base + count } }, base)

/-- `GenSeriesID` for a NEW series with `PrepareFlush` of the index database landing between its two
inserts (series dictionary entry, then metric→series posting) — what a `PrepareFlush` that runs in another
goroutine than the row handler can do. lindb runs it inline in the row handler (memdb `handle`), so this
is not a behaviour of lindb; `Neg.series_prepare_between_inserts` shows what it would do. -/
def genSeriesPrepareBetween (c : Cfg) (nd : Node) (shard m ts : Nat) : Node × GenOut :=
  let sh := nd.shards shard
  match sh.series.lookup m ts with
  | some i => (nd, .id i)
  | none =>
    let sid := sh.createSeriesID m
    let sh1 := { sh with series := sh.series.insert m ts sid }
    let sh2 := sh1.prepareFlushE c.prepareSwapsEmpty
    let sh3 := { sh2 with seqCache := fun j => if j = m then some sid else sh2.seqCache j, minv := sh2.minv.put (m, sid) }
    (nd.setShard shard sh3, .id sid)

/-- the same with the fault in the schema family: ns and metric dictionaries flush normally, the kv
commit of `metricSchemaStore.Flush` fails (the store returns the error before its locked tail: nothing is
marked persisted, `immutable` stays), the tag value dictionary is not reached -/
def metaFlushFailSchemaAt (nd : Node) : Nat :=
  match nd.schema.frz with
  | some (_, false) => 3
  | _ => 5

/-- an index flush whose series dictionary flush (the last step) fails at its kv family commit -/
def indexFlushFailAt (nd : Node) (shard : Nat) : Nat := if (nd.shards shard).series.needFlush then 3 else 4

/-- reopen after Close() or after a crash: neither writes anything (Sequence.Close only unmaps),
so both are "what is on disk and in the sequence file" -/
def recover (nd : Node) : Node :=
  { lim := nd.lim, seqMem := nd.seqMmap, seqMmap := nd.seqMmap,
    ns := nd.ns.recover, metric := nd.metric.recover, tagValue := nd.tagValue.recover,
    schema := nd.schema.recover, nShards := nd.nShards,
    shards := fun k => (nd.shards k).recover }

end Node

/-! ## Operations of the sequential history model -/

inductive Op
  | metric (nb ns name : Nat)
  | field (m f : Nat)
  | tagKey (m k : Nat)
  | tagValue (tk v : Nat)
  | series (shard m ts : Nat) (tags : List (Nat × Nat))
  | metaPrepare
  | metaFlush
  | indexPrepare (shard : Nat)
  | indexFlush (shard : Nat)
  | reopen
  | metaFlushCrash (k : Nat)            -- the process dies after k steps of a metadata flush
  | indexFlushCrash (shard k : Nat)     -- … after k steps of one shard's index flush
  | metaFlushFail (k : Nat)             -- a metadata flush that returns an error at step k (no crash)
  deriving Repr

def step (c : Cfg) (nd : Node) : Op → Node × Option GenOut
  | .metric nb ns name => let r := nd.genMetric c nb ns name; (r.1, some r.2)
  | .field m f => let r := nd.genFieldID c m f; (r.1, some r.2)
  | .tagKey m k => let r := nd.genTagKeyID c m k; (r.1, some r.2)
  | .tagValue tk v => let r := nd.genTagValueID c tk v; (r.1, some r.2)
  | .series sh m ts tags => let r := nd.genSeries c sh m ts tags; (r.1, some r.2)
  | .metaPrepare => (nd.metaPrepareE c.prepareSwapsEmpty, none)
  | .metaFlush => (nd.metaFlush, none)
  | .indexPrepare sh => (nd.indexPrepareE sh c.prepareSwapsEmpty, none)
  | .indexFlush sh => (nd.indexFlush sh, none)
  | .reopen => (nd.recover, none)
  | .metaFlushCrash k => ((nd.metaFlushPrefix k).recover, none)
  | .indexFlushCrash sh k => ((nd.indexFlushPrefix sh k).recover, none)
  | .metaFlushFail k => (nd.metaFlushPrefix k, none)

def run (c : Cfg) : Node → List Op → Node
  | nd, [] => nd
  | nd, op :: rest => run c (step c nd op).1 rest

/-! ## Histories with faulted index flushes -/

inductive FOp
  | op (o : Op)                       -- any operation of the sequential history model (crashes, reopen, failed metadata flushes included)
  | indexFlushFault (shard k : Nat)   -- one shard's real `Flush()` during which step `k` fails (k ≥ 4: no fault)
  | metricLim (nb ns name : Nat)      -- `GenMetricID` under namespace / metric-name limits (may be refused)
  | evictSeq (shard m : Nat)          -- one shard's LRU `sequenceCache` drops metric `m` (capacity eviction / TTL expiry)
  deriving Repr

/-- `steps` / `abort`: order and control flow of `metricIndexDatabase.Flush` (regenerated facts, see IdAssignCfg) -/
def fstep (c : Cfg) (steps : List Nat) (nd : Node) : FOp → Node
  | .op o => (step c nd o).1
  | .indexFlushFault sh k => (nd.indexFlushFault c.indexFlushAborts steps sh k).1
  | .metricLim nb ns name => (nd.genMetricLim c nb ns name).1
  | .evictSeq sh m => nd.setShard sh ((nd.shards sh).evictSeq m)

def frun (c : Cfg) (steps : List Nat) : Node → List FOp → Node
  | nd, [] => nd
  | nd, op :: rest => frun c steps (fstep c steps nd op) rest

/-! ## The memdb index worker (`indexDatabase.handle`): rows and flush requests from one channel -/

inductive WEvent
  | row (m ts : Nat)     -- a row of a (possibly new) series: `handleRow` → `GenSeriesID`
  | flush                -- a `*FlushEvent`
  deriving Repr, DecidableEq

/-- the history the worker's events stand for when `PrepareFlush` runs inline in the handler goroutine -/
def WEvent.ops (shard : Nat) : WEvent → List Op
  | .row m ts => [.series shard m ts []]
  | .flush => [.indexPrepare shard, .indexFlush shard]

/-- what the worker does with its events. `inline = true` (lindb): the handler goroutine itself calls
`PrepareFlush` between two rows, `Flush` follows. `inline = false`: `PrepareFlush` runs in the background flush
goroutine (`pend` = requested, not yet run); the placement shown is "between the two inserts of the next row's
GenSeriesID". -/
def workerGo (inline : Bool) (c : Cfg) (shard : Nat) : Node → Bool → List WEvent → Node
  | nd, pend, [] => if pend then (nd.indexPrepareE shard c.prepareSwapsEmpty).indexFlush shard else nd
  | nd, pend, .row m ts :: rest =>
    if pend then workerGo inline c shard ((nd.genSeriesPrepareBetween c shard m ts).1.indexFlush shard) false rest
    else workerGo inline c shard (nd.genSeries c shard m ts []).1 false rest
  | nd, pend, .flush :: rest =>
    if inline then workerGo inline c shard ((nd.indexPrepareE shard c.prepareSwapsEmpty).indexFlush shard) pend rest
    else workerGo inline c shard (if pend then (nd.indexPrepareE shard c.prepareSwapsEmpty).indexFlush shard else nd) true rest

def workerRun (inline : Bool) (c : Cfg) (shard : Nat) (nd : Node) (evs : List WEvent) : Node :=
  workerGo inline c shard nd false evs

/-! ## Two-thread schedules used by the witness cases (and by `Neg`) -/

/-- A runs until it is about to call createValue (at most two steps), B runs to completion, A
finishes: the schedule `A.mem A.disk B.mem B.disk B.create A.create`. -/
def kvRace (v : KvVariant) (s : KvStore) (ctr : Nat) (a b : KThread) : KvStore × Nat × KThread × KThread :=
  let a1 := kstep v s ctr a
  let a2 := match a1.2.2.pc with
    | .afterMem _ => kstep v a1.1 a1.2.1 a1.2.2
    | _ => a1
  let b' := krun v 8 a2.1 a2.2.1 b
  let a' := krun v 8 b'.1 b'.2.1 a2.2.2
  (a'.1, a'.2.1, a'.2.2, b'.2.2)

/-- `genTagKeyID` twice on one metric: A reads its schema pointer (`GetSchema`, outside the lock),
B runs to completion, then A does its locked part. Returns A's and B's answers. -/
def tagKeyRace (v : SchemaVariant) (lim : Limits) (s : SchemaStore) (ctr m ka kb : Nat) :
    SchemaStore × Nat × GenOut × GenOut :=
  let ga := s.getSchema m
  let rb := genTagKey v lim ga.1 ctr m kb
  let la := lockedPtr v rb.1 m ga.2
  let ra := tagKeyLocked lim la.1 rb.2.1 m ka la.2
  (ra.1, ra.2.1, ra.2.2, rb.2.2)

/-- the same schedule for `genFieldID` -/
def fieldRace (v : SchemaVariant) (lim : Limits) (s : SchemaStore) (m fa fb : Nat) :
    SchemaStore × GenOut × GenOut :=
  let ga := s.getSchema m
  let rb := genField v lim ga.1 m fb
  let la := lockedPtr v rb.1 m ga.2
  let ra := fieldLocked lim la.1 m fa la.2
  (ra.1, ra.2, rb.2)

/-! ## Compaction of a dictionary family (index/v1/index_kv_merger.go)

A kv family is a list of files, newest first; a file maps bucket → name → id. Readers take the first
file that has the name (`TrieBucket.GetValue` over the tries appended by `Unmarshal`, one per file).
The merger is called once per bucket with that bucket's blocks of all input files and writes their union. -/

abbrev KvFiles := List Dict

/-- what a reader of the family sees -/
def readFiles : KvFiles → Dict
  | [] => Dict.empty
  | f :: rest => f.over (readFiles rest)

/-- `indexKVMerger.Merge(bucketID, blocks)`: a fresh TrieBucket, every block unmarshalled into it -/
def mergeBucket (blocks : List (Nat → Option Nat)) : Nat → Option Nat
  | n => match blocks with
    | [] => none
    | b :: rest => match b n with
      | some i => some i
      | none => mergeBucket rest n

/-- the compaction job: one output file whose block for bucket `b` is the merge of the inputs' blocks -/
def compactFiles (fs : KvFiles) : KvFiles := [fun b => mergeBucket (fs.map (fun f => f b))]

/-- a merger that keeps ONE working bucket for the whole job and never resets it (not lindb's): the block
written for bucket `b` also holds everything merged for the buckets before it (`lower` = those buckets) -/
def compactFilesLeaky (fs : KvFiles) (lower : Nat → List Nat) : KvFiles :=
  [fun b => mergeBucket (((lower b).map (fun b' => fs.map (fun f => f b'))).flatten ++ fs.map (fun f => f b))]

/-! ## tsdb/memdb: the memory index of a metric (index_database.go GetOrCreateTimeSeriesIndex)

Double-checked creation: lock-free `Load`; on a miss take `idb.lock`, `Load` again, create and `Store`.
`exclusive` = the lock is taken with `Lock()` (lindb) — the second check and the store are one atomic
step; with `RLock()` they are two steps of possibly several callers. -/

inductive MPc
  | start
  | locked      -- missed the fast path; about to run the section under idb.lock
  | checked     -- (shared lock only) second Load missed, Store not yet done
  | done (o : Nat)
  deriving DecidableEq, Repr

structure MemIdx where
  /-- `timeSeriesIndexes[nameHash]`: the TimeSeriesIndex object of the metric, if stored -/
  slot : Option Nat := none
  nobj : Nat := 0
  threads : List MPc := []
  deriving DecidableEq, Repr

def mstep (exclusive : Bool) (s : MemIdx) (i : Nat) : MemIdx :=
  match s.threads[i]? with
  | none => s
  | some pc =>
    match pc with
    | .start =>
      match s.slot with
      | some o => { s with threads := s.threads.set i (.done o) }
      | none => { s with threads := s.threads.set i .locked }
    | .locked =>
      match s.slot with
      | some o => { s with threads := s.threads.set i (.done o) }
      | none =>
        if exclusive then { s with slot := some s.nobj, nobj := s.nobj + 1, threads := s.threads.set i (.done s.nobj) }
        else { s with threads := s.threads.set i .checked }
    | .checked => { s with slot := some s.nobj, nobj := s.nobj + 1, threads := s.threads.set i (.done s.nobj) }
    | .done _ => s

/-- a schedule: `none` = a new caller arrives, `some i` = caller i takes its next step -/
def mrun (exclusive : Bool) (s : MemIdx) : List (Option Nat) → MemIdx
  | [] => s
  | none :: rest => mrun exclusive { s with threads := s.threads ++ [.start] } rest
  | some i :: rest => mrun exclusive (mstep exclusive s i) rest

end LinVerif.IdAssign
