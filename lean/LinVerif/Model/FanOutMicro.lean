/-
Micro-step interleaving model of the fan-out layer (core Lean only): Consume ‖ Ack ‖ Sync ‖
FanOutQueue.SetAppendedSeq ‖ Put, each method cut into the atomic accesses of shared fields the Go
code performs, with the lock it holds around them. Which access runs under which lock is NOT
hand-written knowledge: it is the regenerated fact table `Generated.C06.*Access` (see
`Props.C06.access_tie`), and the `Shape` parameter below is computed from it (`shapeOfAccess`).

Shared memory (`Sh`): queue appended / acknowledged, per group the in-memory positions and the meta
page, the key set of `consumerGroups` (fixed: create / stop need `lock4map.Lock`, they are the subject
of Model/FanOutConc.lean). One thread per role:

  consumer   consumerGroup.Consume        (A) cLoad   consumedSeq.Load()+1           no lock
                                          (B) cWake   NotEmpty returns                no lock
             consume()                        cLock   lock4headSeq.Lock; consumedSeq.Load; AppendedSeq()
                                              cStore  compare; consumedSeq.Store      (Lock held)
                                              cPut    metaPage.PutUint64; Unlock      (Lock held)
  acker      consumerGroup.Ack                aLock   lock4headSeq.RLock; ts, hs loads
                                              aStore  window test; acknowledgedSeq.Store
                                              aLoadC  f.ConsumedSeq() for the meta write
                                              aPut1   PutUint64(.., consumed offset)
                                              aPut2   PutUint64(f.AcknowledgedSeq(), ack offset); RUnlock
  syncer     fanOutQueue.Sync                 sLock   lock4map.RLock; len check; ackSeq := AppendedSeq()
                                              sVisit  one iteration of the range loop (ANY unvisited key:
                                                      Go's map iteration order), fo.AcknowledgedSeq() — no group lock
                                              sSet    ackSeq >= 0 ⇒ queue.SetAcknowledgedSeq; RUnlock
  resetter   fanOutQueue.SetAppendedSeq       rQueue  lock4map.RLock; queue.SetAppendedSeq
                                              rSeq1   SetSeq on ANY unvisited key: Lock; consumedSeq.Store
                                              rSeq2   acknowledgedSeq.Store; two PutUint64; Unlock
                                              rUnlock
  producer   queue.Put                        put     (the queue's own mutex: one step for the positions)
  rewinder   consumerGroup.SetConsumedSeq     wSet    Lock; consumedSeq.Store; PutUint64; Unlock   (round 12;
                                                      target inside [ack, appended], else it is a reset)

A step that acquires a lock is merged with the loads that follow it (nothing another thread can do
in between is distinguishable from doing it before the acquisition).

`Shape.ackPersistLocked = false` is the shape of seeded change c06-19 (Ack releases the read lock
after the Store and writes the meta page outside): the acker's `stored / loaded / put1` states no
longer exclude the consumer.
-/
import LinVerif.Model.FanOut

namespace LinVerif.FanOut.Micro
open LinVerif.FanOut

structure Shape where
  /-- Ack's loads for the meta write and both PutUint64 run inside the read-locked section -/
  ackPersistLocked : Bool
  deriving DecidableEq, Repr

def Shape.pinned : Shape := { ackPersistLocked := true }

/-- one entry of the regenerated access table: `R`/`W`, field, lock held (`-` = none) -/
structure Access where
  rw : String
  field : String
  lock : String
  deriving DecidableEq, Repr

/-- the shape the access table of `Ack` selects: every meta-page write under `lock4headSeq.RLock` -/
def shapeOfAccess (ack : List Access) : Shape :=
  { ackPersistLocked := (ack.filter (fun a => a.rw = "W" ∧ a.field = "metaPage")).all (fun a => a.lock = "lock4headSeq.RLock") }

structure Sh where
  appended : Int
  qack : Int
  grp : Nat → Option Group
  pg : Nat → Option Meta
  names : List Nat

def Sh.setGrp (s : Sh) (g : Nat) (x : Group) : Sh := { s with grp := fun k => if k = g then some x else s.grp k }
def Sh.setPg (s : Sh) (g : Nat) (m : Meta) : Sh := { s with pg := fun k => if k = g then some m else s.pg k }

inductive CPc
  | idle
  | parked (g : Nat) (head : Int)
  | woken (g : Nat)
  | read (g : Nat) (h app : Int)      -- holds lock4headSeq.Lock
  | stored (g : Nat) (h : Int)        -- holds lock4headSeq.Lock
  deriving DecidableEq, Repr

inductive APc
  | idle
  | read (g : Nat) (n ts hs : Int)    -- holds lock4headSeq.RLock
  | stored (g : Nat) (n : Int)        -- holds it iff ackPersistLocked
  | loaded (g : Nat) (n c : Int)
  | put1 (g : Nat) (n : Int)
  deriving DecidableEq, Repr

inductive SPc
  | idle
  | scan (acc : Int) (visited : List Nat)   -- holds lock4map.RLock
  deriving DecidableEq, Repr

inductive RPc
  | idle
  | rq (n : Int) (visited : List Nat)       -- holds lock4map.RLock
  | seq (n : Int) (visited : List Nat) (g : Nat)   -- + lock4headSeq.Lock of g
  deriving DecidableEq, Repr

structure MState where
  sh : Sh
  c : CPc
  a : APc
  y : SPc
  r : RPc
  outs : List (Nat × Int)     -- (group, sequence) handed out so far, latest first

def CPc.holds : CPc → Nat → Bool
  | .read g _ _, k => g == k
  | .stored g _, k => g == k
  | _, _ => false

def APc.holds (sp : Shape) : APc → Nat → Bool
  | .read g _ _ _, k => g == k
  | .stored g _, k => sp.ackPersistLocked && g == k
  | .loaded g _ _, k => sp.ackPersistLocked && g == k
  | .put1 g _, k => sp.ackPersistLocked && g == k
  | _, _ => false

def RPc.holds : RPc → Nat → Bool
  | .seq _ _ g, k => g == k
  | _, _ => false

inductive MOp
  | cLoad (g : Nat) | cWake | cLock | cStore | cPut
  | aLock (g : Nat) (n : Int) | aStore | aLoadC | aPut1 | aPut2
  | sLock | sVisit (g : Nat) | sSet
  | put
  | rQueue (n : Int) | rSeq1 (g : Nat) | rSeq2 | rUnlock
  | wSet (g : Nat) (n : Int)
  deriving DecidableEq, Repr

/-- steps of the explicit index reset -/
def MOp.isReset : MOp → Bool
  | .rQueue _ | .rSeq1 _ | .rSeq2 | .rUnlock => true
  | _ => false

/-- `queue.SetAcknowledgedSeq` on the positions -/
def Sh.setAck (s : Sh) (n : Int) : Sh := if n > s.qack ∧ n ≤ s.appended then { s with qack := n } else s

/-- one micro-step; `none` = not enabled (wrong program counter, blocked on a lock, parked) -/
def mstep (sp : Shape) (ms : MState) : MOp → Option MState
  | .cLoad g =>
    match ms.c, ms.sh.grp g with
    | .idle, some x => some { ms with c := .parked g (x.consumed + 1) }
    | _, _ => none
  | .cWake =>
    match ms.c with
    | .parked g head =>
      match ms.sh.grp g with
      | some x =>
        if x.paused then some { ms with c := .idle }                  -- NotEmpty answers false: -1
        else if head ≤ ms.sh.appended then some { ms with c := .woken g }
        else none                                                       -- stays parked
      | none => none
    | _ => none
  | .cLock =>
    match ms.c with
    | .woken g =>
      match ms.sh.grp g with
      | some x =>
        if ms.a.holds sp g || ms.r.holds g then none
        else some { ms with c := .read g (x.consumed + 1) ms.sh.appended }
      | none => none
    | _ => none
  | .cStore =>
    match ms.c with
    | .read g h app =>
      match ms.sh.grp g with
      | some x =>
        if h ≤ app then some { ms with sh := ms.sh.setGrp g { x with consumed := h }, c := .stored g h }
        else some { ms with c := .idle }                                -- nothing available: -1, Unlock
      | none => none
    | _ => none
  | .cPut =>
    match ms.c with
    | .stored g h =>
      match ms.sh.pg g with
      | some m => some { ms with sh := ms.sh.setPg g { m with consumed := h }, c := .idle, outs := (g, h) :: ms.outs }
      | none => none
    | _ => none
  | .aLock g n =>
    match ms.a, ms.sh.grp g with
    | .idle, some x =>
      if ms.c.holds g || ms.r.holds g then none
      else some { ms with a := .read g n x.ack x.consumed }
    | _, _ => none
  | .aStore =>
    match ms.a with
    | .read g n ts hs =>
      match ms.sh.grp g with
      | some x =>
        if n ≥ ts ∧ n ≤ hs then some { ms with sh := ms.sh.setGrp g { x with ack := n }, a := .stored g n }
        else some { ms with a := .idle }                                -- ignored (warning), RUnlock
      | none => none
    | _ => none
  | .aLoadC =>
    match ms.a with
    | .stored g n =>
      match ms.sh.grp g with
      | some x => some { ms with a := .loaded g n x.consumed }
      | none => none
    | _ => none
  | .aPut1 =>
    match ms.a with
    | .loaded g n c =>
      match ms.sh.pg g with
      | some m => some { ms with sh := ms.sh.setPg g { m with consumed := c }, a := .put1 g n }
      | none => none
    | _ => none
  | .aPut2 =>
    match ms.a with
    | .put1 g _ =>
      match ms.sh.grp g, ms.sh.pg g with
      | some x, some m => some { ms with sh := ms.sh.setPg g { m with ack := x.ack }, a := .idle }
      | _, _ => none
    | _ => none
  | .sLock =>
    match ms.y with
    | .idle => if ms.sh.names.isEmpty then some ms else some { ms with y := .scan ms.sh.appended [] }
    | _ => none
  | .sVisit g =>
    match ms.y with
    | .scan acc vis =>
      if g ∈ ms.sh.names ∧ g ∉ vis then
        match ms.sh.grp g with
        | some x => some { ms with y := .scan (if x.ack < acc then x.ack else acc) (g :: vis) }
        | none => none
      else none
    | _ => none
  | .sSet =>
    match ms.y with
    | .scan acc vis =>
      if ms.sh.names.all (fun k => vis.contains k) then
        some { ms with sh := if acc ≥ 0 then ms.sh.setAck acc else ms.sh, y := .idle }
      else none
    | _ => none
  | .put => some { ms with sh := { ms.sh with appended := ms.sh.appended + 1 } }
  | .rQueue n =>
    match ms.r with
    | .idle => some { ms with sh := { ms.sh with appended := n, qack := n }, r := .rq n [] }
    | _ => none
  | .rSeq1 g =>
    match ms.r with
    | .rq n vis =>
      if g ∈ ms.sh.names ∧ g ∉ vis then
        match ms.sh.grp g with
        | some x =>
          if ms.c.holds g || ms.a.holds sp g then none
          else some { ms with sh := ms.sh.setGrp g { x with consumed := n }, r := .seq n vis g }
        | none => none
      else none
    | _ => none
  | .rSeq2 =>
    match ms.r with
    | .seq n vis g =>
      match ms.sh.grp g with
      | some x => some { ms with sh := (ms.sh.setGrp g { x with ack := n }).setPg g { consumed := n, ack := n },
                                 r := .rq n (g :: vis) }
      | none => none
    | _ => none
  | .rUnlock =>
    match ms.r with
    | .rq _ vis => if ms.sh.names.all (fun k => vis.contains k) then some { ms with r := .idle } else none
    | _ => none
  | .wSet g n =>
    -- consumerGroup.SetConsumedSeq by a further goroutine (the replicators' rewind / re-consume):
    -- lock4headSeq.Lock; consumedSeq.Store(n); PutUint64(consumed offset); Unlock — one step (exclusive
    -- lock around both; the only lock-free reader of consumedSeq is Consume's head load (A), which sees
    -- the new value before or after the PutUint64 alike; nobody reads the page lock-free).
    -- Enabled for a target inside [ack, appended] only: outside it the call is an explicit reset.
    match ms.sh.grp g, ms.sh.pg g with
    | some x, some m =>
      if ms.c.holds g || ms.a.holds sp g || ms.r.holds g then none
      else if x.ack ≤ n ∧ n ≤ ms.sh.appended then
        some { ms with sh := (ms.sh.setGrp g { x with consumed := n }).setPg g { m with consumed := n } }
      else none
    | _, _ => none

/-- a schedule: every step must be enabled -/
def mrun (sp : Shape) : MState → List MOp → Option MState
  | ms, [] => some ms
  | ms, o :: os =>
    match mstep sp ms o with
    | none => none
    | some ms' => mrun sp ms' os

/-- all threads idle -/
def MState.quiet (ms : MState) : Bool :=
  ms.c == .idle && ms.a == .idle && ms.y == .idle && ms.r == .idle

/-- the shared memory seen from a sequential `State` (positions only) -/
def shOf (s : State) : Sh :=
  { appended := s.q.appended, qack := s.q.ack, grp := Map.lookup s.live, pg := Map.lookup s.metas,
    names := Map.keys s.live }

def MState.ofState (s : State) : MState :=
  { sh := shOf s, c := .idle, a := .idle, y := .idle, r := .idle, outs := [] }

end LinVerif.FanOut.Micro
