/-
C05, round 9: the WRITERS OF THE META PAGE as threads (core Lean only).

The queue keeps its appended / acknowledged sequence twice: in memory (two atomics) and in the
mapped meta page (what NewQueue's initSequence reads back after close/reopen or a crash). Three
functions write both copies: Put (through persistMetaOfMessage), SetAppendedSeq,
SetAcknowledgedSeq. Each is a list of instructions WITH its lock / unlock calls, decoded from the
regenerated token lists of `Generated/C05Meta.lean` (harness/internal/extract/facts_c05meta.go);
the interleaving model runs any number of caller threads, ONE INSTRUCTION per step (each is an
atomic store/load of an aligned word, or a mutex call), `lock` being enabled only while nobody
holds the mutex. Whether a store happens inside or outside a critical section is therefore a
property of the regenerated program, not of the model.

`crash` = the process dies between two instructions (every completed store into the shared
mapping stays), NewQueue runs the `initSequence` program on what is in the meta page.
-/
namespace LinVerif.QueueMeta

/-- where a stored value comes from -/
inductive Src
  | arg          -- the caller's argument (`seq`)
  | loc          -- the local assigned by `setLoc` (`seq` of persistMetaOfMessage)
  | memApp       -- q.appendedSeq.Load()
  | memAck       -- q.acknowledgedSeq.Load()
  | memAppSucc   -- q.appendedSeq.Load() + 1
  | diskApp      -- q.metaPage.ReadUint64(queueAppendedSeqOffset)
  | diskAck      -- q.metaPage.ReadUint64(queueAcknowledgedSeqOffset)
  deriving DecidableEq, Repr

inductive Instr
  | lock                  -- q.rwMutex.Lock()
  | unlock                -- q.rwMutex.Unlock() (deferred: last instruction)
  | sync                  -- q.metaPage.Sync(): nothing a process crash can see
  | setLoc (s : Src)
  | memApp (s : Src)      -- q.appendedSeq.Store(..)
  | memAck (s : Src)      -- q.acknowledgedSeq.Store(..)
  | diskApp (s : Src)     -- q.metaPage.PutUint64(.., queueAppendedSeqOffset)
  | diskAck (s : Src)     -- q.metaPage.PutUint64(.., queueAcknowledgedSeqOffset)
  | ifAck (skip : Nat)    -- `if seq > acknowledgedSeq && seq <= appendedSeq { <skip instrs> }`
  deriving DecidableEq, Repr

inductive Kind
  | put | reset | ack
  deriving DecidableEq, Repr

structure Progs where
  put : List Instr      -- queue.Put with persistMetaOfMessage inlined
  reset : List Instr    -- queue.SetAppendedSeq
  ack : List Instr      -- queue.SetAcknowledgedSeq
  init : List Instr     -- queue.initSequence (run by NewQueue on an existing meta page)
  deriving DecidableEq, Repr

def Progs.of (P : Progs) : Kind → List Instr
  | .put => P.put
  | .reset => P.reset
  | .ack => P.ack

/-! ### decoding the regenerated tokens -/

/-- every token the model knows (plain literals: the tie theorems evaluate the decoder by `decide`).
The one guard is SetAcknowledgedSeq's, with a body of up to six tokens. -/
def tokenTable : List (String × Instr) :=
  [("lock", .lock),
   ("unlock", .unlock),
   ("sync", .sync),
   ("loc:=arg", .setLoc .arg),
   ("loc:=loc", .setLoc .loc),
   ("loc:=mem.app", .setLoc .memApp),
   ("loc:=mem.ack", .setLoc .memAck),
   ("loc:=mem.app+1", .setLoc .memAppSucc),
   ("loc:=disk.app", .setLoc .diskApp),
   ("loc:=disk.ack", .setLoc .diskAck),
   ("mem.app:=arg", .memApp .arg),
   ("mem.app:=loc", .memApp .loc),
   ("mem.app:=mem.app", .memApp .memApp),
   ("mem.app:=mem.ack", .memApp .memAck),
   ("mem.app:=mem.app+1", .memApp .memAppSucc),
   ("mem.app:=disk.app", .memApp .diskApp),
   ("mem.app:=disk.ack", .memApp .diskAck),
   ("mem.ack:=arg", .memAck .arg),
   ("mem.ack:=loc", .memAck .loc),
   ("mem.ack:=mem.app", .memAck .memApp),
   ("mem.ack:=mem.ack", .memAck .memAck),
   ("mem.ack:=mem.app+1", .memAck .memAppSucc),
   ("mem.ack:=disk.app", .memAck .diskApp),
   ("mem.ack:=disk.ack", .memAck .diskAck),
   ("disk.app:=arg", .diskApp .arg),
   ("disk.app:=loc", .diskApp .loc),
   ("disk.app:=mem.app", .diskApp .memApp),
   ("disk.app:=mem.ack", .diskApp .memAck),
   ("disk.app:=mem.app+1", .diskApp .memAppSucc),
   ("disk.app:=disk.app", .diskApp .diskApp),
   ("disk.app:=disk.ack", .diskApp .diskAck),
   ("disk.ack:=arg", .diskAck .arg),
   ("disk.ack:=loc", .diskAck .loc),
   ("disk.ack:=mem.app", .diskAck .memApp),
   ("disk.ack:=mem.ack", .diskAck .memAck),
   ("disk.ack:=mem.app+1", .diskAck .memAppSucc),
   ("disk.ack:=disk.app", .diskAck .diskApp),
   ("disk.ack:=disk.ack", .diskAck .diskAck),
   ("if[arg > mem.ack && arg <= mem.app]:0", .ifAck 0),
   ("if[arg > mem.ack && arg <= mem.app]:1", .ifAck 1),
   ("if[arg > mem.ack && arg <= mem.app]:2", .ifAck 2),
   ("if[arg > mem.ack && arg <= mem.app]:3", .ifAck 3),
   ("if[arg > mem.ack && arg <= mem.app]:4", .ifAck 4),
   ("if[arg > mem.ack && arg <= mem.app]:5", .ifAck 5),
   ("if[arg > mem.ack && arg <= mem.app]:6", .ifAck 6)]

def decodeInstr (tok : String) : Option Instr := tokenTable.lookup tok

def decodeProg (toks : List String) : Option (List Instr) := toks.mapM decodeInstr

/-- the four programs, in the order the extractor emits them; anything else: the model does not apply -/
def decodeProgs : List (String × List String) → Option Progs
  | [("Put", p), ("SetAppendedSeq", r), ("SetAcknowledgedSeq", a), ("initSequence", i)] => do
    let p ← decodeProg p
    let r ← decodeProg r
    let a ← decodeProg a
    let i ← decodeProg i
    some { put := p, reset := r, ack := a, init := i }
  | _ => none

/-! ### state -/

inductive Th
  | idle
  | run (k : Kind) (pc : Nat) (loc arg : Int)
  deriving DecidableEq, Repr

structure MSt where
  memApp : Int
  memAck : Int
  diskApp : Int
  diskAck : Int
  holder : Option Nat      -- who holds rwMutex
  ths : Nat → Th
  rets : List Int          -- sequences handed to callers whose Put returned success and that no later
                           -- SetAppendedSeq discarded (a reset to v keeps exactly the sequences ≤ v)

/-- a quiescent queue whose two copies agree -/
def MSt.start (app ack : Int) : MSt :=
  { memApp := app, memAck := ack, diskApp := app, diskAck := ack, holder := none,
    ths := fun _ => .idle, rets := [] }

def setTh (ths : Nat → Th) (t : Nat) (x : Th) : Nat → Th := fun t' => if t' = t then x else ths t'

def Src.eval (σ : MSt) (loc arg : Int) : Src → Int
  | .arg => arg
  | .loc => loc
  | .memApp => σ.memApp
  | .memAck => σ.memAck
  | .memAppSucc => σ.memApp + 1
  | .diskApp => σ.diskApp
  | .diskAck => σ.diskAck

/-- one instruction other than lock/unlock: new shared state, new local, how many instructions to skip -/
def execInstr (σ : MSt) (k : Kind) (loc arg : Int) : Instr → MSt × Int × Nat
  | .lock => (σ, loc, 0)
  | .unlock => (σ, loc, 0)
  | .sync => (σ, loc, 0)
  | .setLoc s => (σ, s.eval σ loc arg, 0)
  | .memApp s =>
    let v := s.eval σ loc arg
    ({ σ with memApp := v,
              rets := if k = .reset then σ.rets.filter (fun r => decide (r ≤ v)) else σ.rets }, loc, 0)
  | .memAck s => ({ σ with memAck := s.eval σ loc arg }, loc, 0)
  | .diskApp s => ({ σ with diskApp := s.eval σ loc arg }, loc, 0)
  | .diskAck s => ({ σ with diskAck := s.eval σ loc arg }, loc, 0)
  | .ifAck n => (σ, loc, if arg > σ.memAck ∧ arg ≤ σ.memApp then 0 else n)

/-- thread `t` moves to `pc`; at the end of its program the call returns (a Put hands out `loc`) -/
def retire (P : Progs) (σ : MSt) (t : Nat) (k : Kind) (pc : Nat) (loc arg : Int) : MSt :=
  if pc < (P.of k).length then { σ with ths := setTh σ.ths t (.run k pc loc arg) }
  else { σ with ths := setTh σ.ths t .idle, rets := if k = .put then loc :: σ.rets else σ.rets }

/-- NewQueue on the meta page as it is: the init program, no other thread exists -/
def crash (P : Progs) (σ : MSt) : MSt :=
  let σ' := P.init.foldl (fun s i => (execInstr s .ack 0 0 i).1) σ
  { σ' with holder := none, ths := fun _ => .idle }

inductive MEv
  | call (t : Nat) (k : Kind) (arg : Int)   -- idle thread t calls Put / SetAppendedSeq(arg) / SetAcknowledgedSeq(arg)
  | step (t : Nat)                          -- thread t executes its next instruction
  | crash
  deriving DecidableEq, Repr

/-- one step; `none` = not enabled (idle thread, `lock` while the mutex is held, `unlock` by a non-holder) -/
def mstep (P : Progs) (σ : MSt) : MEv → Option MSt
  | .call t k a =>
    match σ.ths t with
    | .idle => some { σ with ths := setTh σ.ths t (.run k 0 0 a) }
    | _ => none
  | .step t =>
    match σ.ths t with
    | .idle => none
    | .run k pc loc arg =>
      match (P.of k)[pc]? with
      | none => none
      | some .lock =>
        if σ.holder = none then some (retire P { σ with holder := some t } t k (pc + 1) loc arg) else none
      | some .unlock =>
        if σ.holder = some t then some (retire P { σ with holder := none } t k (pc + 1) loc arg) else none
      | some i =>
        let r := execInstr σ k loc arg i
        some (retire P r.1 t k (pc + 1 + r.2.2) r.2.1 arg)
  | .crash => some (crash P σ)

def mrun (P : Progs) (σ : MSt) : List MEv → Option MSt
  | [] => some σ
  | e :: es =>
    match mstep P σ e with
    | some σ' => mrun P σ' es
    | none => none

/-! ### the programs of the source the proofs were written against (tied in Props/C05) -/

def currentProgs : Progs :=
  { put := [.lock, .setLoc .memAppSucc, .diskApp .loc, .memApp .loc, .unlock],
    reset := [.lock, .memApp .arg, .memAck .arg, .diskApp .memApp, .diskAck .memAck, .sync, .unlock],
    ack := [.lock, .ifAck 3, .memAck .arg, .diskAck .arg, .sync, .unlock],
    init := [.memApp .diskApp, .memAck .diskAck] }

/-- SetAppendedSeq with the meta page written after the unlock, from the argument (refuted shape) -/
def splitResetProgs : Progs :=
  { currentProgs with
    reset := [.lock, .memApp .arg, .memAck .arg, .unlock, .diskApp .arg, .diskAck .arg, .sync] }

/-! ### driver helpers: run a thread up to its next store into the meta page -/

def isDiskStore : Instr → Bool
  | .diskApp _ => true
  | .diskAck _ => true
  | _ => false

inductive RunRes
  | parked (i : Instr) (v : Int)    -- about to execute this store of value v
  | done (k : Kind) (loc : Int)     -- the call returned
  | blocked                         -- next instruction is `lock` and the mutex is held
  | notRunning
  | stuck                           -- out of fuel / ill-formed program
  deriving Repr

/-- execute instructions of thread `t` (at least one unless blocked) until the next one is a store
into the meta page, or the call returns -/
def runToStore (P : Progs) (σ : MSt) (t : Nat) : Nat → Bool → MSt × RunRes
  | 0, _ => (σ, .stuck)
  | fuel + 1, first =>
    match σ.ths t with
    | .idle => (σ, .notRunning)
    | .run k pc loc arg =>
      match (P.of k)[pc]? with
      | none => (σ, .stuck)
      | some i =>
        if isDiskStore i ∧ first = false then
          let v := match i with
            | .diskApp s => s.eval σ loc arg
            | .diskAck s => s.eval σ loc arg
            | _ => 0
          (σ, .parked i v)
        else
          match mstep P σ (.step t) with
          | none => (σ, .blocked)
          | some σ' =>
            match σ'.ths t with
            | .idle => (σ', .done k (match σ'.rets with | r :: _ => if k = .put then r else loc | [] => loc))
            | _ => runToStore P σ' t fuel false

end LinVerif.QueueMeta
