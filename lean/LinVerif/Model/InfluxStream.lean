/-
C16 — executable model of a line-protocol REQUEST (core Lean only).

Mirrors
  * ingestion/influx/influx.go   Parse: ONE commonseries.RowBuilder (taken from a pool) for the whole
                                 request; per line: Reset, comment → continue, parseInfluxLineWithEnriched
                                 (error → continue), the request's enriched tags (error → the request
                                 fails), batch.TryAppend(Build) (error → continue)
  * ingestion/influx/parser.go   parseInfluxLineWithEnriched as far as it TOUCHES THE BUILDER: AddNameSpace,
                                 (scan) name limit, AddMetricName, (scan) tag-count limit, per tag key /
                                 value limits + AddTag, (scan) field-count limit, per field name limit +
                                 AddSimpleField, (scan) AddTimestamp — returning at the first problem, so a
                                 rejected line leaves what it had added so far in the builder.

The scanning layer (scanMetricName / scanTagLine / parseTags / scanFieldLine / parseFields /
parseTimestamp) is abstracted by its RESULT per line (`ILine`): which section failed, and the parsed
name / tags / fields / timestamp otherwise. (Escaping and the field section have their own models:
Model/Escape.lean, Model/InfluxField.lean.)

Where `rowBuilder.Reset()` stands in the loop is a regenerated classification
(`Generated.C16.influxResetAtLoopTop`); `lineStep` takes it as a parameter so that the model follows the
source and the theorem names the placement that makes lines independent.
-/
import LinVerif.Model.FlatRow

namespace LinVerif.InfluxStream
open LinVerif.Row LinVerif.FlatRow

/-- what the scanning layer makes of one line -/
structure ILine where
  comment : Bool        -- starts with '#': `continue` before the parser is called
  nameErr : Bool        -- scanMetricName failed: parseInfluxLine returns nil (sic) after AddNameSpace
  name : String         -- the unescaped measurement
  tagsErr : Bool        -- scanTagLine / parseTags failed (before any AddTag)
  tags : List Tag       -- the tag map in iteration order
  fieldsErr : Bool      -- scanFieldLine failed / parseFields gave an error and no field / ErrInfField
  fields : List SField  -- what parseFields returned
  tsErr : Bool          -- parseTimestamp failed
  ts : Option Int       -- none: no timestamp on the line (timeutil.Now())
  deriving Repr

/-- request context: limits, request namespace, enriched tags, clock -/
abbrev ICfg := Cfg

/-- parseInfluxLineWithEnriched: new builder state, `true` = an error was returned -/
def parseLine (c : ICfg) (b : RB) (ln : ILine) : RB × Bool :=
  let l := c.limits
  let b := b.addNameSpace c.reqNs
  if ln.nameErr then (b, false)
  else if over l.maxName (blen ln.name) then (b, true)
  else
    let b := b.addMetricName ln.name
    if ln.tagsErr then (b, true)
    else if over l.maxTags (ln.tags.length + c.enriched.length) then (b, true)
    else match addRowTags l b ln.tags with
      | (b, some _) => (b, true)
      | (b, none) =>
        if ln.fieldsErr then (b, true)
        else if over l.maxFields ln.fields.length then (b, true)
        else match addFields l b ln.fields with
          | (b, some _) => (b, true)
          | (b, none) =>
            if ln.tsErr then (b, true)
            else (b.addTimestamp (ln.ts.getD c.now), false)

/-- what one line of the request comes to -/
inductive LRes where
  | skipped                 -- comment line
  | dropped                 -- rejected: nothing stored
  | stored (s : Stored)
  | fatal                   -- an enriched tag was refused: Parse returns (nil, err)
  deriving DecidableEq, Repr

/-- one pass of the loop body of Parse. `top` = Reset is the first thing the body does (the code);
`top = false` = Reset only after the row was appended (every `continue` skips it). -/
def lineStep (top : Bool) (c : ICfg) (sortK : List Tag → List Tag) (H : String → Nat) (b : RB) (ln : ILine) :
    RB × LRes :=
  let b := if top then b.reset else b
  if ln.comment then (b, .skipped)
  else match parseLine c b ln with
    | (b, true) => (b, .dropped)
    | (b, false) =>
      match addEnriched b c.enriched with
      | (b, some _) => (b, .fatal)
      | (b, none) =>
        match b.build sortK H c.now with
        | (b, .error _) => (b, .dropped)
        | (b, .ok s) => (if top then b else b.reset, .stored s)

/-- Parse: the loop over the lines of the request -/
def parseReq (top : Bool) (c : ICfg) (sortK : List Tag → List Tag) (H : String → Nat) :
    RB → List ILine → RB × List LRes
  | b, [] => (b, [])
  | b, ln :: rest =>
    match lineStep top c sortK H b ln with
    | (b', .fatal) => (b', [.fatal])
    | (b', r) =>
      match parseReq top c sortK H b' rest with
      | (b'', out) => (b'', r :: out)

/-- the same request, every line by a builder of its own that nobody used before -/
def aloneReq (c : ICfg) (sortK : List Tag → List Tag) (H : String → Nat) : List ILine → List LRes
  | [] => []
  | ln :: rest =>
    match (lineStep true c sortK H RB.fresh ln).2 with
    | .fatal => [.fatal]
    | r => r :: aloneReq c sortK H rest

/-! ## the timestamp of a line: request precision → milliseconds -/

/-- getPrecisionMultiplier (on the lower-cased parameter) as a table; anything else: 0 -/
def precisionTable : List (String × Int) :=
  [("ns", -1000000), ("us", -1000), ("ms", 1), ("s", 1000), ("m", 60000), ("h", 3600000), ("default", 0)]

def multiplierOf (tbl : List (String × Int)) (p : String) : Int :=
  match tbl.lookup p with
  | some m => if p = "default" then 0 else m
  | none => 0

/-- parseTimestamp once strconv.ParseInt gave `f`: `none` = multiplier 0, the precision is guessed from
the clock (timestamp2MilliSeconds, not modelled); Go's `/` truncates toward zero -/
def toMillis (mult : Int) (f : Int) : Option Int :=
  if mult = 0 then none
  else if mult > 0 then some (f * mult)
  else some (Int.tdiv (-1 * f) mult)

end LinVerif.InfluxStream
