/-
C01 — the version set's file-number allocator under concurrent committers (core Lean only).

Any number of goroutines (flushers / compactions / bookkeeping commits of the families of ONE store)
run concurrently. The atomic steps are the ones the code has:

  alloc i    storeVersionSet.NextFileNumber           under vs.mutex: hand out `next`, next := next+1
  enter i    CommitFamilyEditLog up to vs.mutex.Lock  reads nothing of the allocator when the read is
                                                      under the lock (`underLock`), else captures `next`
  locked i   the critical section of CommitFamilyEditLog: append the record (referenced table numbers,
             logged next-file-number), apply it: setNextFileNumberWithoutLock(logged)

`underLock` is the regenerated fact "nextFileNumber is read and logged under vs.mutex".
Recovery replays the records in order; every NextFileNumber log sets the allocator (`setNumbers`).
-/
import LinVerif.Model.Manifest

namespace LinVerif.KvSched
open LinVerif LinVerif.Kv

inductive Th
  | idle
  | building (n : Int)                          -- has allocated table number n (table being written)
  | entered (refs : List Int) (cap : Option Int) -- inside CommitFamilyEditLog, before the critical section
  deriving DecidableEq, Repr

structure S where
  next : Int                        -- vs.nextFileNumber
  handed : List Int                 -- every number NextFileNumber has returned
  recs : List (List Int × Int)      -- manifest records in append order: (tables referenced, logged next number)
  ths : Nat → Th

def S.init (n0 : Int) : S := ⟨n0, [], [], fun _ => .idle⟩

def upd (f : Nat → Th) (i : Nat) (t : Th) : Nat → Th := fun j => if j = i then t else f j

inductive Ev
  | alloc (i : Nat)
  | enter (i : Nat)
  | locked (i : Nat)
  deriving DecidableEq, Repr

/-- the allocator value after `nextFileNumber(n).applyVersionSet` — the model's `setNumbers` -/
def afterLog (n : Int) : Int := (setNumbers ⟨[], 0, 0⟩ (.nextFileNumber n)).next

def step (underLock : Bool) (s : S) : Ev → Option S
  | .alloc i =>
    match s.ths i with
    | .idle => some { s with next := s.next + 1, handed := s.next :: s.handed, ths := upd s.ths i (.building s.next) }
    | _ => none
  | .enter i =>
    let cap := if underLock then none else some s.next
    match s.ths i with
    | .idle => some { s with ths := upd s.ths i (.entered [] cap) }          -- a commit without a new table
    | .building n => some { s with ths := upd s.ths i (.entered [n] cap) }   -- storeFlusher.Commit / compaction output
    | _ => none
  | .locked i =>
    match s.ths i with
    | .entered refs cap =>
      let n := cap.getD s.next
      some { s with next := afterLog n, recs := s.recs ++ [(refs, n)], ths := upd s.ths i .idle }
    | _ => none

def run (underLock : Bool) : S → List Ev → Option S
  | s, [] => some s
  | s, e :: t =>
    match step underLock s e with
    | none => none
    | some s' => run underLock s' t

/-- the allocator after recovery: replay of the records' NextFileNumber logs in order -/
def replayNext (init : Int) (recs : List (List Int × Int)) : Int :=
  recs.foldl (fun _ r => afterLog r.2) init

end LinVerif.KvSched
