/-
Model of index/model/trie_bucket.go + trie_bucket_builder.go (core Lean only): a bucket is a
list of tries; `TrieBucketBuilder.Write` sorts the pairs and cuts them into blocks of
`blockSize` keys, one trie each; `TrieBucket.Write` (the merge used by index/v1's
`indexKVMerger.Merge`) keeps the tries with at least `blockSize` keys and rebuilds the others
from the union of their pairs.
-/
import LinVerif.Model.TrieTree

namespace LinVerif.TrieBucket
open LinVerif.TrieTree

/-- `KVs.Less`: `bytes.Compare(a, b) < 0`; as a `≤` for `List.mergeSort` -/
def kvLe (a b : KV) : Bool := !keyLt b.1 a.1

/-- `sort.Sort(kvs)` in `TrieBucketBuilder.Write` (keys are distinct, so the sorted order is unique) -/
def sortKVs (kvs : List KV) : List KV := kvs.mergeSort kvLe

/-- blocks `[i*blockSize, (i+1)*blockSize)` of the sorted pairs -/
def chunks (blockSize : Nat) : Nat → List KV → List (List KV)
  | 0, _ => []
  | _ + 1, [] => []
  | fuel + 1, k :: ks => (k :: ks).take blockSize :: chunks blockSize fuel ((k :: ks).drop blockSize)

/-- `TrieBucketBuilder.Write(keys, ids)`: the key lists of the tries written (requires blockSize ≥ 1) -/
def writeBlocks (blockSize : Nat) (kvs : List KV) : List (List KV) :=
  chunks blockSize kvs.length (sortKVs kvs)

/-- build every block; `none` if some `Build` panics -/
def buildAll : List (List KV) → Option (List Node)
  | [] => some []
  | b :: bs =>
    match build b, buildAll bs with
    | some t, some ts => some (t :: ts)
    | _, _ => none

/-- `TrieBucket.GetValue`: first trie that has the key -/
def bucketGet (eon : Bool) : List Node → Key → Option Nat
  | [], _ => none
  | t :: ts, k =>
    match getNode eon t k with
    | some v => some v
    | none => bucketGet eon ts k

/-- all pairs of a bucket with the given prefix (`FindValuesByLike` / `Suggest` before filtering) -/
def bucketPrefix (step : Bool) (ts : List Node) (p : Key) : List KV := ts.flatMap (fun t => prefixIter step t p)

/-- `tree.Size()` = number of keys of the trie -/
def trieSize (t : Node) : Nat := (iter t).length

/-- `TrieBucket.Write` followed by `Unmarshal` of what was written: the tries of the merged
bucket, in the order "kept tries, then rebuilt blocks" (the Go code first sorts the tries by size
with the unstable `sort.Slice`; the order of the tries is not observable through the
canonicalised queries). Kept tries are copied byte for byte (`tree.buf`). `none` = a `Build`
panicked. -/
def mergeTries (step : Bool) (blockSize : Nat) (ts : List Node) : Option (List Node) :=
  let big := ts.filter (fun t => trieSize t ≥ blockSize)
  let pending := ts.filter (fun t => !(trieSize t ≥ blockSize))
  match pending with
  | [] => some big
  | [p] => some (big ++ [p])
  | _ =>
    (buildAll (writeBlocks blockSize (pending.flatMap (fun t => prefixIter step t [])))).map (fun r => big ++ r)

/-- `TrieBucket.Suggest(prefix, limit)`: one prefix iterator per trie, merged by key
(`mergedIterator`: a heap over the iterators' current keys), the first `limit` keys (at least one:
the loop appends before it tests `len(rs) >= limit`) -/
def bucketSuggest (step : Bool) (ts : List Node) (p : Key) (limit : Nat) : List Key :=
  ((sortKVs (bucketPrefix step ts p)).map (·.1)).take (max limit 1)

/-- `TrieBucket.FindValuesByLike(prefix, subKey, check)`: every trie, prefix iteration, filter -/
def bucketFind (step : Bool) (ts : List Node) (p : Key) (check : Key → Bool) : List Nat :=
  ((bucketPrefix step ts p).filter (fun kv => check kv.1)).map (·.2)

/-! #### two WRONG shortcuts (for `Neg`): they assume the tries of a bucket form one sorted run -/

/-- `GetValue` by bisecting on the tries' first keys: look only into the last trie whose first key
is `≤ key` -/
def bucketGetBisect (eon : Bool) (ts : List Node) (key : Key) : Option Nat :=
  match (ts.filter (fun t => match (iter t).head? with
      | some kv => !keyLt key kv.1
      | none => false)).getLast? with
  | some t => getNode eon t key
  | none => none

/-- prefix scan that stops at the first trie without a match -/
def bucketPrefixStopEarly (step : Bool) : List Node → Key → List KV
  | [], _ => []
  | t :: ts, p =>
    match prefixIter step t p with
    | [] => []
    | l => l ++ bucketPrefixStopEarly step ts p

/-! ### one merger instance, many `Merge` calls (a kv compaction job) -/

/-- one `Merge(bucketID, buckets)` call: the tries unmarshalled from the blocks of that key -/
structure MergeCall where
  bucketID : Nat
  tries : List Node

/-- `indexKVMerger.Merge`: a NEW `model.NewTrieBucket()` is filled with the blocks of this call,
`kvWriter.Prepare(bucketID)` resets the stream writer, `trieBucket.Write` writes the merged tries.
The merger object itself (`flusher`, `kvWriter`) carries nothing from call to call, so the log of
what was written only grows by this call's result. -/
def mergerStep (step : Bool) (blockSize : Nat) (written : List (Nat × Option (List Node))) (c : MergeCall) :
    List (Nat × Option (List Node)) :=
  written ++ [(c.bucketID, mergeTries step blockSize c.tries)]

/-- what one merger instance writes over a sequence of calls -/
def mergerRun (step : Bool) (blockSize : Nat) (calls : List MergeCall) : List (Nat × Option (List Node)) :=
  calls.foldl (mergerStep step blockSize) []

/-! ### a sequence of lookups on one bucket object (round 10) -/

/-- the lookup object: exactly the fields of `model.TrieBucket` (`kvs`, `blockSize`; tie
`gen_bucket_no_lookup_state`) — there is no memo of earlier lookups and no reference to a caller's key -/
structure BucketObj where
  kvs : List Node
  blockSize : Nat

/-- `TrieBucket.GetValue(key)`: walks `b.kvs` (`bucketGet`); the object is not written -/
def getValueStep (eon : Bool) (b : BucketObj) (key : Key) : BucketObj × Option Nat :=
  (b, bucketGet eon b.kvs key)

/-- any sequence of `GetValue` calls on one object (the write path resolves one tag value after the other
against a cached bucket) -/
def lookupSession (eon : Bool) (b : BucketObj) : List Key → List (Option Nat)
  | [] => []
  | k :: ks => (getValueStep eon b k).2 :: lookupSession eon (getValueStep eon b k).1 ks

/-! ### `TrieBucketBuilder.Write` with its index arithmetic (round 12)

`writeBlocks` above cuts the sorted pairs by `take`/`drop`. The Go code computes a block COUNT from
`len(keys)` by division / remainder and then slices `kvs.Keys[start:end]` with `start = i*blockSize`,
`end = min(start+blockSize, len)`. Both sites are mirrored here statement by statement (tie
`gen_bucket_builder_write_body`); `builder_blocks_partition` proves they cooperate for every size. -/

/-- `numBlocks := len(keys) / b.blockSize; if len(keys)%b.blockSize != 0 { numBlocks++ }` -/
def numBlocksGo (n blockSize : Nat) : Nat :=
  if n % blockSize != 0 then n / blockSize + 1 else n / blockSize

/-- `start := i * b.blockSize; end := start + b.blockSize; if end > len(keys) { end = len(keys) }` -/
def blockBounds (n blockSize i : Nat) : Nat × Nat :=
  let start := i * blockSize
  let stop := start + blockSize
  (start, if stop > n then n else stop)

/-- the Go slice expression `s[lo:hi]` (capacity = length): panics (`none`) unless `lo ≤ hi ≤ len(s)` -/
def goSlice {α : Type} (s : List α) (lo hi : Nat) : Option (List α) :=
  if lo ≤ hi ∧ hi ≤ s.length then some ((s.drop lo).take (hi - lo)) else none

/-- `for i := 0; i < numBlocks; i++ { … kvs.Keys[start:end] … }`: `count` iterations left, loop
variable `i`; `none` = a slice expression panicked -/
def blocksLoop (blockSize : Nat) (s : List KV) : Nat → Nat → Option (List (List KV))
  | 0, _ => some []
  | count + 1, i =>
    match goSlice s (blockBounds s.length blockSize i).1 (blockBounds s.length blockSize i).2,
        blocksLoop blockSize s count (i + 1) with
    | some b, some r => some (b :: r)
    | _, _ => none

/-- `TrieBucketBuilder.Write(keys, ids)`: the key lists handed to `builder.Build`, in order; `none` =
panic (`blockSize = 0`: integer divide by zero; a slice out of range) -/
def writeBlocksGo (blockSize : Nat) (kvs : List KV) : Option (List (List KV)) :=
  if blockSize = 0 then none
  else blocksLoop blockSize (sortKVs kvs) (numBlocksGo (sortKVs kvs).length blockSize) 0

/-! ### `TrieBucket.CollectKVs` (reverse lookup value → key; round 12)

```
for _, kv := range b.kvs { itr := kv.tree.NewPrefixIterator(nil)
  for itr.Valid() { val := itr.Value()
    if values.Contains(val) { result[val] = string(itr.Key()); values.Remove(val) }
    if values.IsEmpty() { return }
    itr.Next() } }
```
`values` (a roaring bitmap = a set) is a duplicate-free list; the writes into the caller's `result` map are
returned in the order they happen. -/

/-- the inner `for itr.Valid()` loop over one trie's pairs: (values left, writes so far, returned early) -/
def collectPairs : List KV → List Nat → List (Nat × Key) → List Nat × List (Nat × Key) × Bool
  | [], vs, res => (vs, res, false)
  | (k, v) :: rest, vs, res =>
    let vs' := if vs.contains v then vs.erase v else vs
    let res' := if vs.contains v then res ++ [(v, k)] else res
    if vs'.isEmpty then (vs', res', true) else collectPairs rest vs' res'

/-- `CollectKVs`: the outer `range b.kvs` loop; the `return` inside ends both loops -/
def collectTries (step : Bool) : List Node → List Nat → List (Nat × Key) → List (Nat × Key)
  | [], _, res => res
  | t :: ts, vs, res =>
    let r := collectPairs (prefixIter step t []) vs res
    if r.2.2 then r.2.1 else collectTries step ts r.1 r.2.1

/-- spec: scan ALL pairs in enumeration order (no early exit), the first pair carrying a wanted value wins -/
def firstHits : List KV → List Nat → List (Nat × Key)
  | [], _ => []
  | (k, v) :: rest, vs =>
    if vs.contains v then (v, k) :: firstHits rest (vs.erase v) else firstHits rest vs

/-- the wanted values still open after scanning the pairs -/
def remVals : List KV → List Nat → List Nat
  | [], vs => vs
  | (_, v) :: rest, vs => remVals rest (if vs.contains v then vs.erase v else vs)

/-! ### like dispatch (index/kv_store.go `indexKVStore.FindValuesByLike`) -/

/-- `'*'` -/
def star : Nat := 42

/-- what the `switch` of `FindValuesByLike` decides to do with a like pattern -/
inductive LikePlan where
  | nothing                       -- like == ""
  | all                           -- like == "*": every value of the bucket (empty prefix, HasPrefix(k, nil))
  | withPrefix (p : Key)          -- "p*": prefix iteration from p, bytes.HasPrefix(key, p)
  | withSuffix (s : Key)          -- "*s": all keys, bytes.HasSuffix(key, s)
  | containing (m : Key)          -- "*m*": all keys, bytes.Contains(key, m)
  | exact (k : Key)               -- no wildcard at either end: findValue (GetValue)
  deriving Repr, DecidableEq

def likePlan (like : Key) : LikePlan :=
  let hasPrefixStar := like.head? == some star
  let hasSuffixStar := like.getLast? == some star
  if like.isEmpty then .nothing
  else if like == [star] then .all
  else if !hasPrefixStar && hasSuffixStar then .withPrefix like.dropLast
  else if hasPrefixStar && !hasSuffixStar then .withSuffix like.tail
  else if hasPrefixStar && hasSuffixStar then .containing like.tail.dropLast
  else .exact like

/-- `bytes.HasSuffix` -/
def hasSuffix (s k : Key) : Bool := hasPrefix s.reverse k.reverse

/-- `bytes.Contains` -/
def contains (m k : Key) : Bool := (List.range (k.length + 1)).any (fun i => hasPrefix m (k.drop i))

/-- the values `FindValuesByLike(bucketID, like)` collects from the flushed bucket, in trie order -/
def bucketLike (eon step : Bool) (ts : List Node) (like : Key) : List Nat :=
  match likePlan like with
  | .nothing => []
  | .all => ((bucketPrefix step ts []).filter (fun kv => hasPrefix [] kv.1)).map (·.2)
  | .withPrefix p => ((bucketPrefix step ts p).filter (fun kv => hasPrefix p kv.1)).map (·.2)
  | .withSuffix s => ((bucketPrefix step ts []).filter (fun kv => hasSuffix s kv.1)).map (·.2)
  | .containing m => ((bucketPrefix step ts []).filter (fun kv => contains m kv.1)).map (·.2)
  | .exact k =>
    match bucketGet eon ts k with
    | some v => [v]
    | none => []

/-- the meaning of a like pattern on one key -/
def likeMatches (like key : Key) : Bool :=
  match likePlan like with
  | .nothing => false
  | .all => true
  | .withPrefix p => hasPrefix p key
  | .withSuffix s => hasSuffix s key
  | .containing m => contains m key
  | .exact k => k == key

end LinVerif.TrieBucket
