/-
C20 model: a RE-USED builder (core Lean only). `builder.Reset()` keeps the builder's own
`hasChildVec`, `loudsVec`, `prefixVec`, `suffixVec` (the write context of `Write` / `MarshalSize`),
so `bitVector.Init`, `rankVector.init` and `selectVector.Init` run on buffers that still hold the
previous (possibly larger) dictionary:
* `bitVector.Init`: `if len(v.bits) < words { make } else { zero EVERY word of v.bits }`, then the
  level bitmaps are or-ed in;
* `selectVector.Init` ranges over the WHOLE buffer `v.bits` (not only `words`);
* `rankVector.init` rewrites the first `numBits/blockSize + 1` table entries, older ones stay.
The reuse history is the explicit parameter `prev : Bufs`.
-/
import LinVerif.Model.TrieWire

namespace LinVerif.TrieReuse
open LinVerif.Louds LinVerif.TrieWire

/-- the buffers a builder keeps between builds (bit buffers as bits: 64 per word) -/
structure Bufs where
  hasChild : List Bool := []
  hasChildLut : List Nat := []
  louds : List Bool := []
  hasPrefix : List Bool := []
  hasPrefixLut : List Nat := []
  hasSuffix : List Bool := []
  hasSuffixLut : List Nat := []

/-- `v.bits` after `bitVector.Init` on a buffer that held `prev`: a fresh buffer of `numWords`
words if the old one is too short, otherwise the old buffer zeroed completely; then the new bits -/
def bufInit (prev bits : List Bool) : List Bool :=
  let need := numWords bits.length * wordSize
  if prev.length < need then bits ++ List.replicate (need - bits.length) false
  else bits ++ List.replicate (prev.length - bits.length) false

/-- `rankVector.init` on a re-used table: `numBits/blockSize + 1` entries are computed from the
buffer (full blocks only), entries behind them are left over from before -/
def rankInitReuse (prevLut : List Nat) (numBits : Nat) (buf : List Bool) : List Nat :=
  let fresh := (List.range (numBits / rankSparseBlockSize + 1)).map
    (fun i => popcount (buf.take (i * rankSparseBlockSize)))
  fresh ++ prevLut.drop fresh.length

/-- `selectVector.Init` on a re-used buffer: `numOnes` and the sampled table come from the whole buffer -/
def selInitReuse (buf : List Bool) : Nat × List Nat := (popcount buf, selectLut buf)

/-- the builder's buffers after `initWriteContext` for the vectors `f` -/
def bufsAfter (prev : Bufs) (f : Flat) : Bufs :=
  { hasChild := bufInit prev.hasChild f.hasChild
    hasChildLut := rankInitReuse prev.hasChildLut f.hasChild.length (bufInit prev.hasChild f.hasChild)
    louds := bufInit prev.louds f.louds
    hasPrefix := bufInit prev.hasPrefix f.hasPrefix
    hasPrefixLut := rankInitReuse prev.hasPrefixLut f.hasPrefix.length (bufInit prev.hasPrefix f.hasPrefix)
    hasSuffix := bufInit prev.hasSuffix f.hasSuffix
    hasSuffixLut := rankInitReuse prev.hasSuffixLut f.hasSuffix.length (bufInit prev.hasSuffix f.hasSuffix) }

/-- `rankVector.Write` on the re-used vector: `numBits` bits of the buffer, `rankLut[:nblks]` -/
def rankWire (prevBuf : List Bool) (prevLut : List Nat) (bits : List Bool) : RankVec :=
  let buf := bufInit prevBuf bits
  { bits := buf.take bits.length, blockSize := rankSparseBlockSize,
    lut := (rankInitReuse prevLut bits.length buf).take (bits.length / rankSparseBlockSize + 1) }

/-- `selectVector.Write` on the re-used vector: `numOnes`, `selectLut[:numOnes/64+1]` -/
def selWire (prevBuf : List Bool) (bits : List Bool) : SelVec :=
  let buf := bufInit prevBuf bits
  let (ones, lut) := selInitReuse buf
  { bits := buf.take bits.length, numOnes := ones, lut := lut.take (ones / selectSampleInterval + 1) }

/-- what `builder.Write` serialises for the vectors `f` when the builder's buffers held `prev` -/
def toWireReuse (prev : Bufs) (f : Flat) : Wire :=
  { totalKeys := f.values.length
    height := f.height
    labels := f.labels
    hasChild := rankWire prev.hasChild prev.hasChildLut f.hasChild
    louds := selWire prev.louds f.louds
    pfx := { has := rankWire prev.hasPrefix prev.hasPrefixLut f.hasPrefix,
             offsets := pathOffsets 0 f.prefixes, data := pathData f.prefixes }
    sfx := { has := rankWire prev.hasSuffix prev.hasSuffixLut f.hasSuffix,
             offsets := pathOffsets 0 f.suffixes, data := pathData f.suffixes }
    values := f.values }

end LinVerif.TrieReuse
