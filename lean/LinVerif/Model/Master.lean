/-
Model of the master's storage-state machine (coordinator/master/state_manager.go:
processEvent → onStorageNodeStartup / onStorageNodeFailure / onShardAssignmentChange /
onDatabaseCfgDelete, models.StorageState). Core Lean only.

Events are processed one at a time under the manager's mutex, so the model is a
sequential state machine. Database names are numbers.
-/
import LinVerif.Model.Assign

namespace LinVerif.Master
open LinVerif LinVerif.Assign

/-- models.ShardStateType -/
def stUnknown : Nat := 0
def stNew : Nat := 1
def stOnline : Nat := 2
def stOffline : Nat := 3

structure ShardState where
  state : Nat
  leader : Int          -- models.NoLeader = -1
  replicas : List Nat   -- ShardState.Replica (copy taken by initializeShardState)
  deriving DecidableEq, Repr

/-- Go zero value of `models.ShardState` (what a missing map entry reads as) -/
def ShardState.zero : ShardState := { state := stUnknown, leader := 0, replicas := [] }

structure St where
  live : List Nat                                   -- StorageState.LiveNodes (as a duplicate-free list)
  asg : List (Nat × Assignment)                     -- StorageState.ShardAssignments
  shards : List (Nat × List (Nat × ShardState))     -- StorageState.ShardStates
  dbs : List Nat                                    -- stateManager.databases (names only)
  deriving Repr

def St.init : St := { live := [], asg := [], shards := [], dbs := [] }

inductive Event
  | nodeUp (id : Nat)
  | nodeDown (id : Nat)
  | assignChanged (db : Nat) (a : Assignment)
  | dbCfg (db : Nat)
  | dropDb (db : Nat)
  deriving Repr

/-- result of `ElectLeader` folded into a shard state, as in onNodeFailure / initializeShardState -/
def elected (replicas live : List Nat) (old : ShardState) : ShardState :=
  match electLeader replicas live with
  | none => { old with state := stOffline, leader := -1 }
  | some l => { old with state := stOnline, leader := l }

/-- `initializeShardState`: one state per shard of the assignment -/
def initShardStates (a : Assignment) (live : List Nat) : List (Nat × ShardState) :=
  a.map (fun (sid, rs) => (sid, elected rs live { state := stUnknown, leader := 0, replicas := rs }))

/-- `onNodeStartup` for one database: shards whose assignment contains `id` -/
def startupDb (id : Nat) (a : Assignment) (ss : List (Nat × ShardState)) : List (Nat × ShardState) :=
  a.foldl (fun acc (sid, rs) =>
    if rs.contains id then
      let s := (Map.lookup acc sid).getD ShardState.zero
      let s' := if s.state ≠ stOnline then { s with state := stOnline, leader := (id : Int) } else s
      Map.upsert acc sid s'
    else acc) ss

/-- `onNodeFailure` for one database: shards whose current leader is `id` -/
def failureDb (id : Nat) (a : Assignment) (live : List Nat) (ss : List (Nat × ShardState)) :
    List (Nat × ShardState) :=
  ss.map (fun (sid, s) =>
    if s.leader = (id : Int) then
      (sid, elected ((Map.lookup a sid).getD []) live s)
    else (sid, s))

def insertLive (live : List Nat) (id : Nat) : List Nat := if live.contains id then live else live ++ [id]

def step (st : St) : Event → St
  | .nodeUp id =>
    let live := insertLive st.live id
    -- ReplicasOnNode iterates ShardAssignments; only databases that have ShardStates are touched
    let shards := st.shards.map (fun (db, ss) =>
      match Map.lookup st.asg db with
      | some a => (db, startupDb id a ss)
      | none => (db, ss))
    { st with live := live, shards := shards }
  | .nodeDown id =>
    let live := st.live.filter (· ≠ id)
    let shards := st.shards.map (fun (db, ss) =>
      (db, failureDb id ((Map.lookup st.asg db).getD []) live ss))
    { st with live := live, shards := shards }
  | .assignChanged db a =>
    { st with asg := Map.upsert st.asg db a, shards := Map.upsert st.shards db (initShardStates a st.live) }
  | .dbCfg db => { st with dbs := if st.dbs.contains db then st.dbs else st.dbs ++ [db] }
  | .dropDb db =>
    if st.dbs.contains db then
      { st with dbs := st.dbs.filter (· ≠ db), asg := Map.erase st.asg db, shards := Map.erase st.shards db }
    else st

def run (st : St) (es : List Event) : St := es.foldl step st

/-! EmitEvent / consumeEvent: the watchers hand events to the manager through a bounded channel;
`EmitEvent` is a blocking send (not enabled while the channel is full — it never drops),
`consumeEvent` receives the oldest event and runs `processEvent` on it. `emitted` is a ghost
field: every event ever handed to `EmitEvent`, in order. -/
structure QSt where
  st : St
  queue : List Event
  emitted : List Event

def QSt.init : QSt := { st := St.init, queue := [], emitted := [] }

inductive QAction
  | emit (e : Event)
  | consume

/-- one atomic step; `none` = the action is not enabled (send on a full channel blocks,
receive on an empty channel blocks) -/
def qstep (cap : Nat) (q : QSt) : QAction → Option QSt
  | .emit e => if q.queue.length < cap then
      some { q with queue := q.queue ++ [e], emitted := q.emitted ++ [e] } else none
  | .consume =>
    match q.queue with
    | [] => none
    | e :: t => some { q with st := step q.st e, queue := t }

/-- runs a schedule, skipping actions that are not enabled -/
def qrun (cap : Nat) (q : QSt) (as : List QAction) : QSt :=
  as.foldl (fun q a => (qstep cap q a).getD q) q

/-! Master fail-over. What survives a master is the repository: the registered (ephemeral) live-node
keys, the database configs and the persisted shard assignments. A new master starts from
`NewStorageState()` (empty; `newStorageCluster` reads nothing) and `StateMachineFactory.Start`
hands it one event per key: live nodes, then database configs, then shard assignments. -/
structure Repo where
  live : List Nat
  cfgs : List Nat
  asgs : List (Nat × Assignment)

/-- the events `StateMachineFactory.Start` emits for a repository, in its order -/
def repoEvents (r : Repo) : List Event :=
  r.live.map .nodeUp ++ r.cfgs.map .dbCfg ++ r.asgs.map (fun p => .assignChanged p.1 p.2)

/-- the state of the master that takes over; `old` is the previous master's state (not used:
nothing of it is carried over) -/
def failover (_old : St) (r : Repo) : St := run St.init (repoEvents r)

/-! The etcd watches: every key has its own stream of events; the streams of different keys reach
the manager in an arbitrary interleaving, each stream in order. -/
inductive Key
  | node (id : Nat)
  | cfg (db : Nat)
  | asg (db : Nat)
  deriving DecidableEq, Repr

def Event.key : Event → Key
  | .nodeUp id => .node id
  | .nodeDown id => .node id
  | .dbCfg db => .cfg db
  | .dropDb db => .cfg db
  | .assignChanged db _ => .asg db

/-- the stream of key `k` inside a delivery order -/
def streamOf (k : Key) (es : List Event) : List Event := es.filter (fun e => e.key = k)

/-! The database-config handler (`stateManager.onDatabaseCfgChange` → `shardAssignment`) and the
repository it works on. Two notions of "alive" exist side by side: the registration keys
`/storage/live/nodes/*` in the repository (`Store.reg`, ground truth: a node is alive while its
ephemeral key exists) and the master's event-fed `StorageState.LiveNodes` (`St.live`), which lags
behind the keys by the node events that are still queued. Placement reads the keys. -/

/-- the repository: registration keys of the storage nodes, persisted shard assignments -/
structure Store where
  reg : List Nat
  asgs : List (Nat × Assignment)
  deriving Repr

/-- which repository calls of ONE handled config event fail (transient faults) -/
structure Faults where
  get : Bool    -- `masterRepo.Get` of `/database/assign/<db>` (any error but ErrNotExist)
  list : Bool   -- `repo.List` of the registration keys inside `storage.GetLiveNodes`
  put : Bool    -- `masterRepo.Put` of the assignment key (the first of the two writes)
  deriving Repr, DecidableEq

def Faults.none : Faults := { get := false, list := false, put := false }

/-- what `GetShardAssign` hands to `shardAssignment()` -/
inductive GetRes
  | notExist                 -- `state.ErrNotExist`: the database has no assignment yet
  | failed                   -- any other error: the handler gives up on the event
  | found (a : Assignment)
  deriving Repr

/-- `stateManager.GetShardAssign`: the repository error is passed on as it is -/
def getShardAssign (r : Store) (db : Nat) (f : Faults) : GetRes :=
  if f.get then .failed
  else match Map.lookup r.asgs db with
    | none => .notExist
    | some a => .found a

/-- `storageCluster.GetLiveNodes`: lists the registration keys; the manager's own view of the live
nodes (`view` = `St.live`) is NOT consulted -/
def getLiveNodes (r : Store) (_view : List Nat) (f : Faults) : Option (List Nat) :=
  if f.list then none else some r.reg

/-- `masterRepo.Put(assign key)` followed by `storage.SaveDatabaseAssignment` (same key, same
value): the value is persisted iff the first write succeeds -/
def putAsg (r : Store) (db : Nat) (a : Assignment) (f : Faults) : Store :=
  if f.put then r else { r with asgs := Map.upsert r.asgs db a }

/-- `stateManager.shardAssignment(cfg)` on the repository. `start`/`shift` are the two `rand.Intn`
draws of the assignment loop. Every error path returns without writing. -/
def cfgHandle (r : Store) (view : List Nat) (db : Nat) (numShards rf : Int) (start shift : Nat)
    (f : Faults) : Store :=
  match getShardAssign r db f with
  | .failed => r                                   -- "get shard assign error": return
  | .notExist =>                                   -- createShardAssignment(cluster, cfg, -1, -1)
    match getLiveNodes r view f with
    | none => r
    | some [] => r                                 -- ErrNoLiveNode
    | some (n :: ns) =>
      match shardAssignment (n :: ns) numShards rf start shift 0 with
      | .error _ => r
      | .ok a => putAsg r db a f
  | .found a =>
    if (a.length : Int) > numShards then r         -- panic("not implemented"), recovered in processEvent
    else if (a.length : Int) < numShards then      -- modifyShardAssignment: add shards from id len(Shards)
      match getLiveNodes r view f with
      | none => r
      | some [] => r
      | some (n :: ns) =>
        match modifyShardAssignment (n :: ns) numShards rf a start shift a.length with
        | .error _ => r
        | .ok a' => putAsg r db a' f
    else putAsg r db a f                           -- unchanged: re-trigger the assignment event

/-! The whole system: repository, the storage-node watch (registration changes whose event has not
reached the manager yet) and the manager. -/
structure World where
  store : Store
  nodeq : List Event
  st : St

def World.init : World := { store := { reg := [], asgs := [] }, nodeq := [], st := St.init }

inductive WEvent
  | register (id : Nat)          -- the node's ephemeral key appears; NodeStartup is queued
  | crash (id : Nat)             -- the key vanishes (crash / lease expiry); NodeFailure is queued
  | deliverNode                  -- the manager handles the oldest queued node event
  | cfg (db : Nat) (numShards rf : Int) (start shift : Nat) (f : Faults)   -- create / grow / alter
  | deliverAsg (db : Nat)        -- the assignment watch hands over what is persisted for `db`
  | drop (db : Nat)
  deriving Repr

def wstep (w : World) : WEvent → World
  | .register id =>
    { w with store := { w.store with reg := insertLive w.store.reg id }, nodeq := w.nodeq ++ [.nodeUp id] }
  | .crash id =>
    { w with store := { w.store with reg := w.store.reg.filter (· ≠ id) }, nodeq := w.nodeq ++ [.nodeDown id] }
  | .deliverNode =>
    match w.nodeq with
    | [] => w
    | e :: t => { w with st := step w.st e, nodeq := t }
  | .cfg db numShards rf start shift f =>
    { w with store := cfgHandle w.store w.st.live db numShards rf start shift f, st := step w.st (.dbCfg db) }
  | .deliverAsg db =>
    match Map.lookup w.store.asgs db with
    | none => w
    | some a => { w with st := step w.st (.assignChanged db a) }
  | .drop db =>
    { w with store := { w.store with asgs := Map.erase w.store.asgs db }, st := step w.st (.dropDb db) }

def wrun (w : World) (es : List WEvent) : World := es.foldl wstep w

end LinVerif.Master
