/-
C11, round 12 — `flow.DataLoadContext.Grouping` / `IterateLowSeriesIDs` (flow/context.go): the helper
both loaders (memdb `timeSeriesIndex.Load`, sst `metricLoader.Load`) and `GroupingContext.BuildGroup`
use to map the low series ids of the query onto the POSITIONS the storage unit keeps its series at.
Core Lean only (linked into `lvmodel`).

Ids are the low 16 bits of series ids inside one roaring container; a container is the ascending
list of the ids it holds (its iterator's order).
-/
namespace LinVerif.Model.C11Iter

/-- what `Grouping()` leaves in the context: `MinSeriesID`, `MaxSeriesID`, `LowSeriesIDs`. -/
structure QCtx where
  min : Nat
  max : Nat
  table : List Nat
deriving Repr, DecidableEq

/-- the loop of `Grouping()`: `ctx.LowSeriesIDs[lowSeriesID - min] = lowSeriesID` over the container's
iterator, starting from `make([]uint16, max-min+1)`. -/
def fillTable (min : Nat) : List Nat → List Nat → List Nat
  | [], t => t
  | id :: rest, t => fillTable min rest (t.set (id - min) id)

/-- `Grouping()`: `min = Minimum()`, `max = Maximum()` of the (non-empty, ascending) query container. -/
def grouping (q : List Nat) : QCtx :=
  let min := q.head?.getD 0
  let max := q.getLast?.getD 0
  { min := min, max := max, table := fillTable min q (List.replicate (max - min + 1) 0) }

/-- the loop of `IterateLowSeriesIDs` over the storage container's iterator; `idx` is
`seriesIdxFromStorage`. Result: the callback's arguments `(seriesIdxFromQuery, seriesIdxFromStorage)`
in call order. `seriesID > max → break`, `seriesID < min → idx++; continue`,
`lowSeriesIDs[seriesID-min] == seriesID → fn(..)`, `idx++`. -/
def iterLoop (c : QCtx) : List Nat → Nat → List (Nat × Nat)
  | [], _ => []
  | s :: rest, idx =>
    if s > c.max then []
    else if s < c.min then iterLoop c rest (idx + 1)
    else if c.table[s - c.min]? = some s then (s - c.min, idx) :: iterLoop c rest (idx + 1)
    else iterLoop c rest (idx + 1)

/-- `IterateLowSeriesIDs(lowSeriesIDsFromStorage, fn)`. -/
def iterate (c : QCtx) (storage : List Nat) : List (Nat × Nat) := iterLoop c storage 0

/-- the reference: every stored id the query selects, with its position in the storage container. -/
def selectedAt (q : List Nat) (min : Nat) : List Nat → Nat → List (Nat × Nat)
  | [], _ => []
  | s :: rest, idx =>
    if s ∈ q then (s - min, idx) :: selectedAt q min rest (idx + 1) else selectedAt q min rest (idx + 1)

/-- a variant that is NOT the code (seeded change c11-25): when the storage holds more than one id
`<= min` jump to the first id `>= min` and continue at position `Rank(min) - 1`. -/
def iterateRankSkip (c : QCtx) (storage : List Nat) : List (Nat × Nat) :=
  let rank := (storage.filter (· ≤ c.min)).length
  if rank > 1 then iterLoop c (storage.dropWhile (· < c.min)) (rank - 1) else iterLoop c storage 0

/-- what a loader reads: the storage unit keeps one entry per stored id, in id order; the callback
reads `entries[seriesIdxFromStorage]` for query index `seriesIdxFromQuery`. -/
def loadEntries (pairs : List (Nat × Nat)) (entries : List Nat) : List (Nat × Option Nat) :=
  pairs.map fun p => (p.1, entries[p.2]?)

def showPairs (ps : List (Nat × Nat)) : String :=
  String.intercalate "," (ps.map fun p => s!"{p.1}:{p.2}")

end LinVerif.Model.C11Iter
