/-
C15 — whose `FixedOffsetDecoder` a table reader reads through (kv/table/reader.go, `initialize`:
`r.offsets = encoding.NewFixedOffsetDecoder()`; pkg/encoding/fixed_offset.go also has a
`fixedOffsetDecoderPool` with `GetFixedOffsetDecoder` / `ReleaseFixedOffsetDecoder`, which reader.go
does NOT use — regenerated fact `Generated.C15.readerDecoderSites`, `tie_reader_decoder_objects`).

Decoder objects live in a heap (address = position, content = the offsets table the last
`Unmarshal` loaded); a reader is the address of its decoder: `Get`/`Value()` locate a value through
`heap[address]`, so a reader's answers change exactly when that cell is overwritten. Core Lean only.
-/
namespace LinVerif.Model.TableDecoders

/-- a decoded offsets table -/
abbrev Offs := List Nat

structure St where
  /-- every `FixedOffsetDecoder` ever allocated; content = what its last `Unmarshal` loaded -/
  heap : List Offs
  /-- `reader.offsets` of every reader handed out, in the order of the opens -/
  readers : List Nat
  /-- addresses lying in `encoding.fixedOffsetDecoderPool` -/
  pool : List Nat
  deriving Repr, DecidableEq

/-- one call of `newMMapStoreReader` -/
inductive Ev where
  /-- `initialize` succeeds; the offsets block decodes to `offs` -/
  | openOk (offs : Offs)
  /-- refused before the decoder is loaded (open/mmap error, short file, magic, footer) -/
  | openRefusedEarly
  /-- refused at or after `unmarshalFixedOffsetFunc` (offsets / keys / count): the decoder was
  loaded with `offs` (`[]`: the `Unmarshal` itself failed and left it reset) -/
  | openRefusedLate (offs : Offs)
  deriving Repr, DecidableEq

/-- reader.go as it is: `initialize` allocates the reader's own decoder right before the
`Unmarshal`; a refused open just drops everything (garbage) -/
def stepFresh (s : St) : Ev → St
  | .openOk offs => { s with heap := s.heap ++ [offs], readers := s.readers ++ [s.heap.length] }
  | .openRefusedEarly => s
  | .openRefusedLate offs => { s with heap := s.heap ++ [offs] }

def runFresh (s : St) (evs : List Ev) : St := evs.foldl stepFresh s

/-- the offsets table reader number `i` locates its values with -/
def answers (s : St) (i : Nat) : Option Offs :=
  match s.readers[i]? with
  | some a => s.heap[a]?
  | none => none

/-- `encoding.GetFixedOffsetDecoder()`: an object from the pool, a new one if the pool is empty -/
def getDec (s : St) : Nat × St :=
  match s.pool with
  | a :: rest => (a, { s with pool := rest })
  | [] => (s.heap.length, { s with heap := s.heap ++ [[]] })

/-- a pooled variant (NOT the code): the decoder is taken from the pool when the reader object is
made and a refused open hands it back `rel` times (once per cleanup site that releases it) -/
def stepPooled (rel : Nat) (s : St) : Ev → St
  | .openOk offs =>
    let (a, s') := getDec s
    { s' with heap := s'.heap.set a offs, readers := s'.readers ++ [a] }
  | .openRefusedEarly =>
    let (a, s') := getDec s
    { s' with pool := List.replicate rel a ++ s'.pool }
  | .openRefusedLate offs =>
    let (a, s') := getDec s
    { s' with heap := s'.heap.set a offs, pool := List.replicate rel a ++ s'.pool }

def runPooled (rel : Nat) (s : St) (evs : List Ev) : St := evs.foldl (stepPooled rel) s

end LinVerif.Model.TableDecoders
