/-
Replica-side use of a consumer group (core Lean only), on top of Model/FanOut.lean.

  pkg/queue/consumer_group.go   Pending  = max 0 (appended - consumed)      (under lock4headSeq.RLock)
                                IsEmpty  = appended <= acknowledged         (under lock4headSeq.RLock)
  replica/partition.go          IsExpire = Sync; GC; for every group name: GetOrCreateConsumerGroup;
                                           IsEmpty ⇒ stopReplicator (StopConsumerGroup)
  replica/replicator.go         Consume / GetMessage / SetAckIndex (= Ack) / ResetReplicaIndex i
                                (= SetConsumedSeq (i-1)); replicator_local.go start:
                                ResetReplicaIndex (AckIndex+1)  (= rewind consumed to ack)

and the crash images of the group meta page: the trace of stores every method performs
(consumed at `consumerGroupConsumedSeqOffset`, ack at `consumerGroupAcknowledgedSeqOffset`).
-/
import LinVerif.Model.FanOut

namespace LinVerif.FanOut
open LinVerif.Map

/-- `consumerGroup.Pending` -/
def Group.pending (grp : Group) (appended : Int) : Int :=
  if appended - grp.consumed < 0 then 0 else appended - grp.consumed

/-- `consumerGroup.IsEmpty` -/
def Group.isEmpty (grp : Group) (appended : Int) : Bool := decide (appended ≤ grp.ack)

/-- which test the expiry loop applies before it stops a group: the pinned source uses `IsEmpty`;
`usePending` is the shape of seeded change c08-17 (`Pending() == 0`) -/
def expireTest (usePending : Bool) (grp : Group) (appended : Int) : Bool :=
  if usePending then decide (grp.pending appended = 0) else grp.isEmpty appended

/-- the loop of `partition.IsExpire` over the group names: every group that exists on disk is
looked up (created when it is not live), tested, and stopped when the test says so -/
def expireLoop (v : Variant) (usePending : Bool) : State → List Nat → State
  | s, [] => s
  | s, g :: gs =>
    let s1 := s.create v g
    match lookup s1.live g with
    | some grp =>
      if expireTest usePending grp s1.q.appended then expireLoop v usePending { s1 with live := erase s1.live g } gs
      else expireLoop v usePending s1 gs
    | none => expireLoop v usePending s1 gs

/-- `partition.IsExpire` as far as the queue is concerned (the time-range test is not modelled:
this is the branch in which the partition is old enough) -/
def State.expire (v : Variant) (usePending : Bool) (s : State) : State :=
  let s1 : State := { s.sync with q := s.sync.q.gc }
  expireLoop v usePending s1 (keys s1.live)

/-! ### stores into a group meta page, crash images -/

/-- one `PutUint64` into a group meta page: which field (offset) gets which value -/
inductive MStore
  | consumedAt (v : Int)     -- offset consumerGroupConsumedSeqOffset
  | ackAt (v : Int)          -- offset consumerGroupAcknowledgedSeqOffset
  deriving DecidableEq, Repr

def Meta.apply (m : Meta) : MStore → Meta
  | .consumedAt v => { m with consumed := v }
  | .ackAt v => { m with ack := v }

/-- the stores of `Ack n` inside the window, of `consume()` handing out `h`, of `SetSeq n`, of
`SetConsumedSeq n`, of `NewConsumerGroup` — in source order (regenerated: `*PutArgs`) -/
def ackStores (grp : Group) (n : Int) : List MStore := [.consumedAt grp.consumed, .ackAt n]
def consumeStores (h : Int) : List MStore := [.consumedAt h]
def setSeqStores (n : Int) : List MStore := [.consumedAt n, .ackAt n]
def setConsumedStores (n : Int) : List MStore := [.consumedAt n]
def newGroupStores (v : Variant) (qack : Int) (m : Option Meta) : List MStore :=
  [.consumedAt (newGroup v qack m).consumed, .ackAt (newGroup v qack m).ack]

/-- the page a process crash leaves when the first `k` stores of a method have landed -/
def crashPage (m : Meta) (st : List MStore) (k : Nat) : Meta := (st.take k).foldl Meta.apply m

/-- a freshly acquired page is zero-filled -/
def Meta.zero : Meta := { consumed := 0, ack := 0 }

/-- the state an observer opens from a crash image taken while `Ack n` on `g` (inside the window)
had completed `k` of its meta stores: group `g`'s page is the crash page, the in-memory ack store
is lost with the process; then `NewFanOutQueue` on the image -/
def State.ackCrashImage (v : Variant) (s : State) (g : Nat) (n : Int) (k : Nat) : State :=
  match lookup s.live g, lookup s.metas g with
  | some grp, some m => ({ s with metas := upsert s.metas g (crashPage m (ackStores grp n) k) } : State).reopen v
  | _, _ => s.reopen v

end LinVerif.FanOut
