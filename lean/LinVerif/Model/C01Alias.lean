/-
C01 (round 10) — a decoded log must OWN its bytes: the manifest reader re-uses one record buffer.

Go code mirrored: pkg/bufioutil/bufio_entry_reader.go `Next()` reads the next record into `r.content` — the SAME
backing array when the record fits its capacity (`r.content = r.content[:length]`), a new array otherwise;
kv/version/version_set.go `recover()` hands that slice to `editLog.unmarshal`, whose logs are applied to the
versions and KEPT (a reference file's store name becomes a map key of the recovered version);
kv/version/log.go `newReferenceFile.Decode` / `deleteReferenceFile.Decode` read the name with
`reader.ReadBytes` (a fresh array) and `string(..)` (a copy).

Model: a decoded string is an owned copy or a VIEW (array id, offset, length); the reader's arrays are a
list (the last one is the current buffer); reading a record overwrites the current array's prefix or appends
a new array. `recoverNames` = the names of all records as they read AFTER the whole manifest was replayed.
Core Lean only.
-/
namespace LinVerif.Model.C01Alias

abbrev Bytes := List Nat

/-- one manifest record, as far as this model cares: its bytes and where the store name sits in them -/
structure Rec where
  bytes : Bytes
  off   : Nat
  len   : Nat
  deriving Repr, DecidableEq

def Rec.name (r : Rec) : Bytes := (r.bytes.drop r.off).take r.len

inductive Str
  | own (b : Bytes)
  | view (arr off len : Nat)
  deriving Repr, DecidableEq

/-- the reader's arrays, oldest first; the current buffer is the last one -/
abbrev Arrays := List Bytes

/-- `Next()`: overwrite the current buffer in place when the record fits, else allocate -/
def readInto (as : Arrays) (r : Bytes) : Arrays :=
  match as.getLast? with
  | some cur => if r.length ≤ cur.length then as.dropLast ++ [r ++ cur.drop r.length] else as ++ [r]
  | none => as ++ [r]

/-- `Decode` of the store name: a copy (`copies = true`: ReadBytes + string(..)) or a view into the record -/
def decodeName (copies : Bool) (as : Arrays) (r : Rec) : Str :=
  if copies then .own r.name else .view (as.length - 1) r.off r.len

def resolve (as : Arrays) : Str → Bytes
  | .own b => b
  | .view a off len => ((as.getD a []).drop off).take len

/-- replay: read every record into the buffer, decode its name, keep the decoded value -/
def replayNames (copies : Bool) : Arrays → List Rec → Arrays × List Str
  | as, [] => (as, [])
  | as, r :: rs =>
    let as' := readInto as r.bytes
    let n := decodeName copies as' r
    let (asF, ns) := replayNames copies as' rs
    (asF, n :: ns)

/-- what the recovered versions hold once the manifest is replayed -/
def recoverNames (copies : Bool) (recs : List Rec) : List Bytes :=
  let (as, ns) := replayNames copies [] recs
  ns.map (resolve as)

theorem replayNames_copies (as : Arrays) (recs : List Rec) :
    (replayNames true as recs).2 = recs.map (fun r => Str.own r.name) := by
  induction recs generalizing as with
  | nil => rfl
  | cons r rs ih => simp [replayNames, decodeName, ih]

/-- with copying decoders every recovered name is the name that was written, whatever follows it in the manifest -/
theorem recoverNames_copies (recs : List Rec) : recoverNames true recs = recs.map Rec.name := by
  simp [recoverNames, replayNames_copies, resolve, List.map_map, Function.comp_def]

end LinVerif.Model.C01Alias
