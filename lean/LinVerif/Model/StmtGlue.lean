/-
C17, round 8: the glue around the wire format. Core Lean only.

* decode-side reuse: `Query.UnmarshalJSON` / `MetricMetadata.UnmarshalJSON` into an EXISTING
  receiver (sql/stmt/query.go, metric_metadata.go: condition / having are only assigned when the
  payload carries them), and a worker that decodes a sequence of payloads with a fresh or a
  pooled (not cleared) `innerQuery` scratch value;
* parser glue (sql/base_stmt_parser.go, sql/query_stmt_parser.go): `visitLimit`, `parseDuration`
  (int64 wrap-around and its overflow guard), `visitGroupByKey`, `visitTimeRangeExpr` + the range
  check of `build()`, and the stack machine `visitTagFilterExpr` / `visitTagValue` /
  `completeTagFilterExpr` that builds the where-condition;
* planner-side rewriting: which fields `calcTimeRangeAndInterval` (query/context/utils.go) assigns.
-/
import LinVerif.Model.Stmt

namespace LinVerif.Stmt
open LinVerif.Json

/-! ## Decoding into an existing receiver -/

/-- `if inner.Condition != nil { q.Condition = Unmarshal(inner.Condition) }`: an absent / `null`
field leaves the receiver's value alone -/
def unmarshalOptInto (prev : Expr) (raw : Option Json) : Except Err Expr :=
  match raw with
  | none => .ok prev
  | some v => unmarshal (some v)

/-- `Query.UnmarshalJSON` with receiver `recv` (the code never clears `q.Condition`/`q.Having`;
every other field is assigned unconditionally at the end) -/
def unmarshalQueryInto (recv : Query) (j : Json) : Except Err Query := do
  let kvs ← structFields j
  let explain ← getBool kvs "explain"
  let ns ← getStr kvs "namespace"
  let metric ← getStr kvs "metricName"
  let _ ← getRawList kvs "selectItems"
  let allFields ← getBool kvs "allFields"
  let tr ← getStruct kvs "timeRange"
  let start ← getInt tr "start"
  let stop ← getInt tr "end"
  let interval ← getInterval kvs "interval"
  let storage ← getInterval kvs "storageInterval"
  let ratio ← getInt kvs "intervalRatio"
  let auto ← getBool kvs "autoGroupByTime"
  let groupBy ← getStrList kvs "groupBy"
  let _ ← getRawList kvs "orderByItems"
  let limit ← getInt kvs "limit"
  let condition ← unmarshalOptInto recv.condition (getRaw kvs "condition")
  let having ← unmarshalOptInto recv.having (getRaw kvs "having")
  let selectItems ← unmarshalAll (arrElems kvs "selectItems")
  let orderByItems ← unmarshalAll (arrElems kvs "orderByItems")
  pure { explain := explain, ns := ns, metricName := metric, selectItems := selectItems,
         allFields := allFields, condition := condition,
         timeRange := { start := start, stop := stop }, interval := interval,
         storageInterval := storage, intervalRatio := ratio, autoGroupByTime := auto,
         groupBy := groupBy, having := having, orderByItems := orderByItems, limit := limit }

/-- `MetricMetadata.UnmarshalJSON` with receiver `recv` -/
def unmarshalMetadataInto (recv : Metadata) (j : Json) : Except Err Metadata := do
  let kvs ← structFields j
  let ns ← getStr kvs "namespace"
  let metric ← getStr kvs "metricName"
  let ty ← getU8 kvs "type"
  let tagKey ← getStr kvs "tagKey"
  let pre ← getStr kvs "prefix"
  let limit ← getInt kvs "limit"
  let condition ← unmarshalOptInto recv.condition (getRaw kvs "condition")
  pure { ns := ns, metricName := metric, kind := ty, tagKey := tagKey, prefix_ := pre,
         condition := condition, limit := limit }

/-- the zero `stmt.Query{}` the four processors declare right before decoding -/
def zeroQ : Query :=
  { explain := false, ns := "", metricName := "", selectItems := [], allFields := false,
    condition := .nil, timeRange := ⟨0, 0⟩, interval := 0, storageInterval := 0, intervalRatio := 0,
    autoGroupByTime := false, groupBy := [], having := .nil, orderByItems := [], limit := 0 }

def zeroM : Metadata :=
  { ns := "", metricName := "", kind := 0, tagKey := "", prefix_ := "", condition := .nil, limit := 0 }

/-- (function, how the receiver / the decode scratch value is obtained), tied to the source by
`Generated.C17.decodeTargets`: every receiver is a fresh composite literal, every scratch value a
fresh local -/
def decodeTargetTable : List (String × String) :=
  [("leafTaskProcessor.processMetadataSuggest", "var stmtQuery = &stmt.MetricMetadata{}"),
   ("leafTaskProcessor.processDataSearch", "stmtQuery := stmt.Query{}"),
   ("intermediateTaskProcessor.processDataSearch", "var stmtQuery = &stmt.Query{}"),
   ("intermediateTaskProcessor.processMetadataSearch", "var stmtQuery = &stmt.MetricMetadata{}"),
   ("Query.UnmarshalJSON", "inner := innerQuery{}"),
   ("MetricMetadata.UnmarshalJSON", "inner := innerMetadata{}"),
   ("Unmarshal", "var expr exprData"),
   ("unmarshalCall", "innerExpr := innerCallExpr{}"),
   ("unmarshalBinary", "innerExpr := innerBinaryExpr{}"),
   ("unmarshalSelectItem", "innerExpr := innerSelectItem{}"),
   ("unmarshalOrderByExpr", "innerExpr := innerOrderByExpr{}")]

/-- what `Marshal` / `MarshalJSON` encode with (tied by `Generated.C17.marshalCodec`): lindb/common's
`encoding.JSONMarshal` = jsoniter `ConfigCompatibleWithStandardLibrary` (floats in strconv's
shortest form that parses back to the same float64) -/
def marshalCodecTable : List (String × String) :=
  [("Marshal", "encoding.JSONMarshal"), ("Query.MarshalJSON", "encoding.JSONMarshal"),
   ("MetricMetadata.MarshalJSON", "encoding.JSONMarshal"),
   ("lindb/common encoding", "jsoniter.ConfigCompatibleWithStandardLibrary")]

/-- the Go fields of every expression node type (tied by `Generated.C17.exprNodeFields`): exactly
the arguments of the model's constructors -/
def exprNodeFieldTable : List (String × List (String × String)) := [
  ("BinaryExpr", [("Left", "Expr"), ("Right", "Expr"), ("Operator", "BinaryOP")]),
  ("CallExpr", [("FuncType", "function.FuncType"), ("Params", "[]Expr")]),
  ("EqualsExpr", [("Key", "string"), ("Value", "string")]),
  ("FieldExpr", [("Name", "string")]),
  ("InExpr", [("Key", "string"), ("Values", "[]string")]),
  ("LikeExpr", [("Key", "string"), ("Value", "string")]),
  ("NotExpr", [("Expr", "Expr")]),
  ("NumberLiteral", [("Val", "float64")]),
  ("OrderByExpr", [("Expr", "Expr"), ("Desc", "bool")]),
  ("ParenExpr", [("Expr", "Expr")]),
  ("RegexExpr", [("Key", "string"), ("Regexp", "string")]),
  ("SelectItem", [("Expr", "Expr"), ("Alias", "string")])]

/-- the where-condition stack machine in the source (tied by `Generated.C17.tagFilterAttach`):
what `visitTagFilterExpr` pushes, where `visitTagValue` / `setTagFilterExprValue` put a value, and
the parent link + `b.condition = e` of `completeTagFilterExpr` -/
def tagFilterAttachTable : List (String × String) := [
  ("visitTagFilterExpr: case ctx.TagKey() != nil", "expr = b.createTagFilterExpr(tagKey, ctx)"),
  ("visitTagFilterExpr: case ctx.T_OPEN_P() != nil", "expr = &stmt.ParenExpr{}"),
  ("visitTagFilterExpr: case ctx.T_AND() != nil", "expr = &stmt.BinaryExpr{Operator: stmt.AND}"),
  ("visitTagFilterExpr: case ctx.T_OR() != nil", "expr = &stmt.BinaryExpr{Operator: stmt.OR}"),
  ("visitTagFilterExpr: ", "b.exprStack.Push(expr)"),
  ("visitTagValue: case *stmt.NotExpr", "b.setTagFilterExprValue(expr.Expr, tagValue)"),
  ("visitTagValue: case stmt.Expr", "b.setTagFilterExprValue(expr, tagValue)"),
  ("setTagFilterExprValue: case *stmt.EqualsExpr", "e.Value = tagValue"),
  ("setTagFilterExprValue: case *stmt.LikeExpr", "e.Value = tagValue"),
  ("setTagFilterExprValue: case *stmt.RegexExpr", "e.Regexp = tagValue"),
  ("setTagFilterExprValue: case *stmt.InExpr", "e.Values = append(e.Values, tagValue)"),
  ("completeTagFilterExpr: if !b.exprStack.Empty() / case *stmt.BinaryExpr / if parentExpr.Left == nil", "parentExpr.Left = e"),
  ("completeTagFilterExpr: if !b.exprStack.Empty() / case *stmt.BinaryExpr / else / if parentExpr.Right == nil", "parentExpr.Right = e"),
  ("completeTagFilterExpr: if !b.exprStack.Empty() / case *stmt.ParenExpr", "parentExpr.Expr = e"),
  ("completeTagFilterExpr: ", "b.condition = e")]

/-- how a worker obtains the `innerQuery` it decodes into -/
inductive ScratchPolicy where
  /-- `inner := innerQuery{}` (the code) -/
  | fresh
  /-- taken from a pool and put back without clearing (not the code) -/
  | pooled
  deriving DecidableEq, Repr

/-- what a not-cleared scratch value still holds: the fields earlier payloads carried (jsoniter
decodes a present key over the old value and leaves absent keys alone, i.e. it behaves like one
object with the earlier fields first — `lookup` takes the last occurrence) -/
structure Worker where
  scratch : Fields

/-- one `processDataSearch` on this worker: fresh receiver, scratch by policy -/
def Worker.decode (pol : ScratchPolicy) (w : Worker) (payload : Json) : Worker × Except Err Query :=
  match pol, payload with
  | .fresh, _ => (w, unmarshalQueryInto zeroQ payload)
  | .pooled, .obj kvs => ({ scratch := w.scratch ++ kvs }, unmarshalQueryInto zeroQ (.obj (w.scratch ++ kvs)))
  | .pooled, j => (w, unmarshalQueryInto zeroQ j)

/-- a request history on one worker: the decoded statement of every request, in order -/
def Worker.run (pol : ScratchPolicy) : Worker → List Json → List (Except Err Query)
  | _, [] => []
  | w, p :: ps => let r := w.decode pol p; r.2 :: Worker.run pol r.1 ps

/-! ## Parser glue -/

/-- errors of the glue functions (what they put into `q.err`) -/
inductive GlueErr where
  /-- `strconv.ParseInt`: not a number -/
  | syntax
  /-- `strconv.ParseInt`: value out of range, or "duration ... is out of range" -/
  | range
  /-- "start time cannot be larger than end time" -/
  | timeOrder
  deriving DecidableEq, Repr

def maxInt64 : Int := 9223372036854775807
def minInt64 : Int := -9223372036854775808
def maxInt32 : Int := 2147483647

/-- Go's int64 multiplication result: two's complement wrap-around -/
def wrap64 (x : Int) : Int := (x + 9223372036854775808) % 18446744073709551616 - 9223372036854775808

/-- `strconv.ParseInt(text, 10, 64)` -/
def parseInt64 (cs : List Char) : Except GlueErr Int :=
  match parseInt cs with
  | none => .error .syntax
  | some v => if minInt64 ≤ v ∧ v ≤ maxInt64 then .ok v else .error .range

/-- `baseStmtParser.visitLimit`: `strconv.ParseInt(ctx.L_INT().GetText(), 10, 32)`; the token is
digits only -/
def visitLimit (cs : List Char) : Except GlueErr Int :=
  match parseDigits cs with
  | none => .error .syntax
  | some n => if (n : Int) ≤ maxInt32 then .ok n else .error .range

/-- the unit switch of `parseDuration` in source order (token, constant), tied to the source by
`Generated.C17.durationUnits` -/
def durationUnitTable : List (String × Int) :=
  [("T_SECOND", oneSecond), ("T_MINUTE", oneMinute), ("T_HOUR", oneHour), ("T_DAY", oneDay),
   ("T_WEEK", oneWeek), ("T_MONTH", oneMonth), ("T_YEAR", oneYear)]

/-- the overflow guard of `parseDuration`, as text (tied by `Generated.C17.durationGuard`) -/
def durationGuardTable : List String :=
  ["result = duration * unitVal", "if unitVal != 0 && result/unitVal != duration { q.err = fmt.Errorf(\"duration %s is out of range\", durationCtx.GetText()) return 0 }"]

/-- `queryStmtParser.parseDuration` on the text of the `intNumber` and the unit constant
(`none`: no interval item). `result = duration * unitVal` wraps; `result/unitVal` is Go's
truncating division. -/
def parseDuration (cs : List Char) (unit : Option Int) : Except GlueErr Int :=
  match parseInt64 cs with
  | .error e => .error e
  | .ok d =>
    match unit with
    | none => .ok 0
    | some u =>
      let r := wrap64 (d * u)
      if u ≠ 0 ∧ r.tdiv u ≠ d then .error .range else .ok r

/-- one `groupByKey`: a tag key, `time(<duration>)`, or `time()` -/
inductive GroupKey where
  | tag (k : String)
  | time (v : Int)          -- the value `parseDuration` returned
  | autoTime
  deriving Repr

/-- the three group-by fields of the parser -/
structure GroupState where
  groupBy : List String
  interval : Int
  auto : Bool
  deriving Repr, DecidableEq

/-- `visitGroupByKey` -/
def visitGroupByKey (g : GroupState) : GroupKey → GroupState
  | .tag k => { g with groupBy := g.groupBy ++ [k] }
  | .time v => { g with interval := v }
  | .autoTime => { g with auto := true }

/-- the comparison of one `timeExpr` -/
inductive TimeOp where
  | gt | ge | lt | le | other
  deriving DecidableEq, Repr

/-- `visitTimeRangeExpr` over the `timeExpr`s of the clause: `>`/`>=` set the start, `<`/`<=` the
end, any other operator is ignored -/
def visitTimeRange (st : Int × Int) : List (TimeOp × Int) → Int × Int
  | [] => st
  | (op, ts) :: rest =>
    let st := match op with
      | .gt | .ge => (ts, st.2)
      | .lt | .le => (st.1, ts)
      | .other => st
    visitTimeRange st rest

/-- `build()`: defaults, then `if End < Start { error }` -/
def buildTimeRangeChecked (startTime endTime now : Int) : Except GlueErr TimeRange :=
  let tr := buildTimeRange startTime endTime now
  if tr.stop < tr.start then .error .timeOrder else .ok tr

/-! ### the where-condition stack machine (sql/base_stmt_parser.go) -/

/-- the alternatives of `createTagFilterExpr` -/
inductive AtomKind where
  | eq | neq | like | notLike | regex | neqRegex | inList | notIn
  deriving DecidableEq, Repr

/-- `createTagFilterExpr`: the node built when the atom is entered (key set, value(s) not yet) -/
def createTagFilter (k : AtomKind) (key : String) : Expr :=
  match k with
  | .eq => .equals key ""
  | .neq => .not (.equals key "")
  | .like => .like key ""
  | .notLike => .not (.like key "")
  | .regex => .regex key ""
  | .neqRegex => .not (.regex key "")
  | .inList => .inE key []
  | .notIn => .not (.inE key [])

/-- `setTagFilterExprValue` -/
def setTagValue (e : Expr) (v : String) : Expr :=
  match e with
  | .equals k _ => .equals k v
  | .like k _ => .like k v
  | .regex k _ => .regex k v
  | .inE k vs => .inE k (vs ++ [v])
  | e => e

/-- `visitTagValue` on the node on top of the stack: a `NotExpr` passes the value to its operand -/
def visitTagValueOn (top : Expr) (v : String) : Expr :=
  match top with
  | .not e => .not (setTagValue e v)
  | e => setTagValue e v

/-- what the antlr tree walk calls, in order, while it walks a `tagFilterExpr` -/
inductive TagEv where
  | enterAtom (k : AtomKind) (key : String)   -- EnterTagFilterExpr, `ctx.TagKey() != nil`
  | enterParen                                 -- EnterTagFilterExpr, `ctx.T_OPEN_P() != nil`
  | enterBin (op : Int)                        -- EnterTagFilterExpr, `T_AND` / `T_OR`
  | value (v : String)                         -- EnterTagValue
  | exit                                       -- ExitTagFilterExpr
  deriving Repr

/-- `exprStack` and `b.condition` -/
structure TagState where
  stack : List Expr
  condition : Expr
  deriving Repr

/-- the parent link of `completeTagFilterExpr`: a `BinaryExpr` takes the child as `Left` if that is
still nil, else as `Right` if that is still nil; a `ParenExpr` takes it as `Expr` -/
def attachTo (parent e : Expr) : Expr :=
  match parent with
  | .binary .nil r op => .binary e r op
  | .binary l .nil op => .binary l e op
  | .paren _ => .paren e
  | p => p

def attach (stack : List Expr) (e : Expr) : List Expr :=
  match stack with
  | [] => []
  | p :: rest => attachTo p e :: rest

/-- one listener call -/
def tagStep (st : TagState) : TagEv → TagState
  | .enterAtom k key => { st with stack := createTagFilter k key :: st.stack }
  | .enterParen => { st with stack := .paren .nil :: st.stack }
  | .enterBin op => { st with stack := .binary .nil .nil op :: st.stack }
  | .value v =>
    match st.stack with
    | [] => st
    | top :: rest => { st with stack := visitTagValueOn top v :: rest }
  | .exit =>
    match st.stack with
    | [] => st                                   -- `Pop()` of an empty stack is nil: no `stmt.Expr`
    | e :: rest => { stack := attach rest e, condition := e }

def tagRun (st : TagState) (evs : List TagEv) : TagState := evs.foldl tagStep st

/-- a derivation of `tagFilterExpr` (the four alternatives of the grammar) -/
inductive Cond where
  | atom (k : AtomKind) (key : String) (vs : List String)
  | paren (c : Cond)
  | bin (op : Int) (l r : Cond)
  deriving Repr

/-- the listener calls of the tree walk over a derivation (enter, children left to right, exit) -/
def Cond.walk : Cond → List TagEv
  | .atom k key vs => .enterAtom k key :: (vs.map .value ++ [.exit])
  | .paren c => .enterParen :: (c.walk ++ [.exit])
  | .bin op l r => .enterBin op :: (l.walk ++ (r.walk ++ [.exit]))

/-- the atom after its values were visited -/
def atomExpr (k : AtomKind) (key : String) (vs : List String) : Expr :=
  vs.foldl visitTagValueOn (createTagFilter k key)

/-- the condition tree a derivation stands for -/
def Cond.denote : Cond → Expr
  | .atom k key vs => atomExpr k key vs
  | .paren c => .paren c.denote
  | .bin op l r => .binary l.denote r.denote op

/-! ## Planner-side rewriting (query/context/utils.go `calcTimeRangeAndInterval`) -/

/-- the fields of the statement `calcTimeRangeAndInterval` assigns, in source order (tied by
`Generated.C17.plannerAssigns`) -/
def plannerAssignTable : List String :=
  ["statement.TimeRange.Start", "statement.TimeRange.End", "statement.Interval",
   "statement.StorageInterval", "statement.Interval", "statement.IntervalRatio"]

/-- a planner step as far as C17 is concerned: it replaces exactly the planning fields (the
values are C13's business) -/
def planRewrite (q : Query) (tr : TimeRange) (interval storage ratio : Int) : Query :=
  { q with timeRange := tr, interval := interval, storageInterval := storage, intervalRatio := ratio }

/-- `interval = storageInterval * intervalRatio`, the last assignment to `statement.Interval` -/
def plannedInterval (storage ratio : Int) : Int := storage * ratio

end LinVerif.Stmt
