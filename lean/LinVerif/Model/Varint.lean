/-
Model of the variable-length integer codecs used by lindb's storage codecs (core Lean only).

  * `encoding/binary.PutUvarint / PutVarint`   (called by pkg/stream/writer.go PutUvarint64/PutVarint64)
  * `pkg/stream/reader.go readUvarint / readVarint` (lindb's own copy of the stdlib reader)
  * `encoding/binary.Uvarint`                   (called by pkg/encoding/fixed_offset.go Unmarshal)
  * `pkg/encoding/encoding.go ZigZagEncode / ZigZagDecode`
  * `pkg/stream/encoding.go UvariantSize`

Bytes are `Nat`s below 256, `uint64` values are `Nat`s below `2^64`, signed values are `Int`s.
Conversions between Go's fixed-width types are explicit (`toU64`, `toI64`, `toI32`).
-/
namespace LinVerif.Varint

def two64 : Nat := 18446744073709551616
def two63 : Nat := 9223372036854775808
def two32 : Nat := 4294967296
def two31 : Nat := 2147483648

/-- `uint64(x)` for a signed Go integer `x` -/
def toU64 (x : Int) : Nat := (x % (two64 : Int)).toNat
/-- `int64(u)` for `u : uint64` (and wrap-around of an `int64` computation) -/
def toI64 (x : Int) : Int := (x + (two63 : Int)) % (two64 : Int) - (two63 : Int)
/-- `int32(x)`: truncation / wrap-around to 32 bits, two's complement -/
def toI32 (x : Int) : Int := (x + (two31 : Int)) % (two32 : Int) - (two31 : Int)
/-- `uint32(x)` -/
def toU32 (x : Int) : Nat := (x % (two32 : Int)).toNat

/-- `binary.PutUvarint`: `for x >= 0x80 { buf[i] = byte(x) | 0x80; x >>= 7; i++ }; buf[i] = byte(x)`.
The loop runs at most 9 times for a `uint64`; `fuel` bounds it structurally. -/
def putUvarintAux : Nat → Nat → List Nat
  | 0, x => [x % 256]
  | fuel + 1, x => if x ≥ 128 then (x % 128 + 128) :: putUvarintAux fuel (x / 128) else [x]

/-- `PutUvarint64(v)` -/
def putUvarint (x : Nat) : List Nat := putUvarintAux 9 x

/-- `binary.PutVarint`: `ux := uint64(x) << 1; if x < 0 { ux = ^ux }; PutUvarint(ux)` -/
def varintToU (x : Int) : Nat :=
  let ux := (toU64 x * 2) % two64
  if x < 0 then two64 - 1 - ux else ux

def putVarint (x : Int) : List Nat := putUvarint (varintToU x)

/-- result of `readUvarint(r *bytes.Reader)`: value, remaining bytes, error kind -/
inductive RErr | none | eof | overflow
  deriving DecidableEq, Repr

/-- lindb's `readUvarint` (pkg/stream/reader.go): `i` is the loop index, `s` the shift, `x` the
accumulator (`uint64`: the `<<` discards bits above 2^64). On error the partial `x` is returned. -/
def readUvarintAux : List Nat → Nat → Nat → Nat → Nat × List Nat × RErr
  | [], _, _, x => (x, [], .eof)
  | b :: rest, i, s, x =>
    if b < 128 then
      if i > 9 ∨ (i = 9 ∧ b > 1) then (x, rest, .overflow)
      else (x ||| ((b <<< s) % two64), rest, .none)
    else readUvarintAux rest (i + 1) (s + 7) (x ||| (((b % 128) <<< s) % two64))

def readUvarint (bs : List Nat) : Nat × List Nat × RErr := readUvarintAux bs 0 0 0

/-- `readVarint`: `x := int64(ux >> 1); if ux&1 != 0 { x = ^x }` (also on error: "ok to continue") -/
def uToVarint (ux : Nat) : Int :=
  let x : Int := toI64 (ux / 2 : Nat)
  if ux % 2 ≠ 0 then -x - 1 else x

def readVarint (bs : List Nat) : Int × List Nat × RErr :=
  let (ux, rest, e) := readUvarint bs
  (uToVarint ux, rest, e)

/-- `encoding/binary.Uvarint(buf)`: value and `n` (>0 bytes read, 0 buffer too small, <0 overflow). -/
def stdUvarintAux : List Nat → Nat → Nat → Nat → Nat × Int
  | [], _, _, _ => (0, 0)
  | b :: rest, i, s, x =>
    if i = 10 then (0, -((i : Int) + 1))
    else if b < 128 then
      if i = 9 ∧ b > 1 then (0, -((i : Int) + 1))
      else (x ||| ((b <<< s) % two64), (i : Int) + 1)
    else stdUvarintAux rest (i + 1) (s + 7) (x ||| (((b % 128) <<< s) % two64))

def stdUvarint (bs : List Nat) : Nat × Int := stdUvarintAux bs 0 0 0

/-- `stream.UvariantSize` -/
def uvariantSizeAux : Nat → Nat → Nat
  | 0, _ => 1
  | fuel + 1, x => if x ≥ 128 then 1 + uvariantSizeAux fuel (x / 128) else 1

def uvariantSize (x : Nat) : Nat := uvariantSizeAux 9 x

/-- `ZigZagEncode(x int64) = uint64(x<<1) ^ uint64(x>>63)`; `x>>63` is `-1` (all ones) for a
negative `x` and `0` otherwise, so the xor is a complement or the identity. -/
def zigzagEnc (x : Int) : Nat :=
  let u := (toU64 x * 2) % two64
  if x < 0 then two64 - 1 - u else u

/-- `ZigZagDecode(v uint64) = int64((v >> 1) ^ uint64((int64(v&1)<<63)>>63))` -/
def zigzagDec (v : Nat) : Int :=
  let h := v / 2
  if v % 2 = 1 then toI64 ((two64 - 1 - h : Nat) : Int) else toI64 (h : Int)

end LinVerif.Varint
