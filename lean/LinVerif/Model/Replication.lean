/-
Model of WAL replication between a leader partition and ONE follower (property C08).
Core Lean only.

Go code mirrored (branch for branch):
  replica/partition.go          partition.replica, ReplicaLog, ReplicaAckIndex, ResetReplicaIndex,
                                WriteLog, IsExpire (the Sync + GC prefix)
  replica/replicator.go         Consume, GetMessage, ReplicaIndex, AckIndex, AppendIndex,
                                ResetReplicaIndex, ResetAppendIndex, SetAckIndex, IgnoreMessage
  replica/replicator_remote.go  IsReady (handshake), Connect, Replica, closeStream,
                                handleNodeStateChangeEvent
  app/storage/rpc/replica.go    ReplicaHandler.Replica (loop body), GetReplicaAckIndex, Reset
  pkg/queue/queue.go            the two counters appendedSeq/acknowledgedSeq, Put, Get
                                (validateSequence), SetAppendedSeq, SetAcknowledgedSeq
  pkg/queue/fanout_queue.go     SetAppendedSeq (queue + every group), Sync
  pkg/queue/consumer_group.go   consume, Ack, SetConsumedSeq, SetSeq, NewConsumerGroup (re-open)

A log is NOT modelled as "base + list" (that would make "no holes" true by construction):
it is the two counters the queue keeps plus a position-indexed store (the index/data pages),
exactly as `queue.Get` sees it: a position is readable iff `ack < i ≤ app` and then the
page content is returned.  `SetAppendedSeq` moves both counters and leaves the pages alone.

Sequences are `Int` (Go int64; -1 = "nothing yet"); no overflow is modelled.
-/
namespace LinVerif.Replication

/-- message payload (bytes) -/
abbrev Msg := List Nat

/-- newest write first; `lookup` returns the newest write to position `i` -/
def lookup (i : Int) : List (Int × Msg) → Option Msg
  | [] => none
  | (k, m) :: t => if k = i then some m else lookup i t

/-- pkg/queue `queue`: acknowledgedSeq, appendedSeq, index+data pages -/
structure Log where
  ack : Int
  app : Int
  store : List (Int × Msg)
  deriving Repr, DecidableEq

/-- `NewQueue` on an empty directory -/
def Log.empty : Log := { ack := -1, app := -1, store := [] }

/-- `queue.Get`: `validateSequence` (`sequence > appended || sequence <= acknowledged` ⇒ error), then the pages -/
def Log.get (l : Log) (i : Int) : Option Msg :=
  if l.ack < i ∧ i ≤ l.app then lookup i l.store else none

/-- `queue.Put`: the message gets sequence `appendedSeq + 1` -/
def Log.put (l : Log) (m : Msg) : Log :=
  { l with app := l.app + 1, store := (l.app + 1, m) :: l.store }

/-- `queue.SetAppendedSeq`: appendedSeq and acknowledgedSeq both become `k` -/
def Log.setAppended (l : Log) (k : Int) : Log := { l with ack := k, app := k }

/-- `queue.SetAcknowledgedSeq`: only forward and never beyond appendedSeq -/
def Log.setAck (l : Log) (a : Int) : Log :=
  if l.ack < a ∧ a ≤ l.app then { l with ack := a } else l

/-- models.ReplicatorState -/
inductive Chan | init | ready | failure
  deriving Repr, DecidableEq

/-- `remoteReplicator.replicaStream`: nil / usable / non-nil but the follower side is gone -/
inductive Stream | none | up | broken
  deriving Repr, DecidableEq

/-- where an injected connection fault strikes in the current step (at most one per step) -/
inductive Fault
  | none
  | cli       -- CreateReplicaServiceClient fails
  | getack    -- GetReplicaAckIndex rpc fails
  | reset     -- Reset rpc fails
  | connect   -- replicaCli.Replica(ctx) (stream creation) fails
  | send      -- stream.Send fails, request not delivered
  | recv      -- request delivered and handled, stream.Recv fails
  deriving Repr, DecidableEq

/-- the code of the comparison that guards `ResetAppendIndex` in IsReady.
`fixed = false`: `remoteLastReplicaAckIdx > appendIdx` (the tree as it is);
`fixed = true` : `nextReplicaIdx > appendIdx` (follower strictly ahead). Selected by the
regenerated fact `Generated.C08.aheadFixed`. -/
structure Cfg where
  fixed : Bool
  deriving Repr, DecidableEq

/-- image of the leader partition directory (queue + this follower's group + the other group) -/
structure Img where
  L : Log
  cons : Int
  gack : Int
  oack : Int
  deriving Repr, DecidableEq

structure St where
  L : Log            -- leader's queue
  cons : Int         -- consumedSeq of the follower's consumer group on the leader
  gack : Int         -- acknowledgedSeq of that group
  oack : Int         -- acknowledgedSeq of one other consumer group on the leader (holds GC back)
  F : Log            -- follower's queue
  chan : Chan        -- remoteReplicator.state
  stream : Stream    -- remoteReplicator.replicaStream
  live : Bool        -- stateMgr.GetLiveNode(follower)
  susp : Bool        -- remoteReplicator.isSuspend (the replica loop is parked on `<-r.suspend`)
  img : Option Img   -- saved image of the leader's partition directory
  deriving Repr, DecidableEq

def St.init : St :=
  { L := Log.empty, cons := -1, gack := -1, oack := -1, F := Log.empty, chan := .init,
    stream := .none, live := true, susp := false, img := none }

/-! ### follower side (app/storage/rpc/replica.go + partition.go) -/

/-- `partition.ReplicaLog` as called by `ReplicaHandler.Replica`: returns the new log and
`resp.AckIndex` (`resp.ReplicaIndex` is always the offered index).
`appendIdx := AppendedSeq()+1; if replicaIdx != appendIdx { return appendIdx }; Put; return appendIdx` -/
def replicaLog (F : Log) (idx : Int) (m : Msg) : Log × Int :=
  let appendIdx := F.app + 1
  if idx ≠ appendIdx then (F, appendIdx) else (F.put m, appendIdx)

/-- `partition.ReplicaAckIndex` -/
def replicaAckIndex (F : Log) : Int := F.app

/-- `partition.ResetReplicaIndex(idx)` = `fanOutQueue.SetAppendedSeq(idx-1)` -/
def followerReset (F : Log) (idx : Int) : Log := F.setAppended (idx - 1)

/-! ### leader side: consumer group + replicator accessors -/

/-- `consumerGroup.consume` (the non-blocking part of Consume): -1 = SeqNoNewMessageAvailable -/
def consume (s : St) : St × Int :=
  let head := s.cons + 1
  if head ≤ s.L.app then ({ s with cons := head }, head) else (s, -1)

/-- `consumerGroup.Ack` via `replicator.SetAckIndex`: `ackSeq >= ts && ackSeq <= hs` -/
def ackGroup (s : St) (a : Int) : St :=
  if s.gack ≤ a ∧ a ≤ s.cons then { s with gack := a } else s

/-- `replicator.ResetReplicaIndex(idx)` = `SetConsumedSeq(idx-1)` -/
def resetReplicaIndex (s : St) (idx : Int) : St := { s with cons := idx - 1 }

/-- `replicator.ResetAppendIndex(idx)` = `fanOutQueue.SetAppendedSeq(idx-1)`: queue and EVERY group -/
def resetAppendIndex (s : St) (idx : Int) : St :=
  { s with L := s.L.setAppended (idx - 1), cons := idx - 1, gack := idx - 1, oack := idx - 1 }

/-- `replicator.IgnoreMessage` -/
def ignoreMessage (s : St) (idx : Int) : St :=
  if s.gack + 1 = idx then ackGroup s idx else s

/-- guard of `ResetAppendIndex` in IsReady's switch -/
def aheadFires (cfg : Cfg) (remoteAck appendIdx : Int) : Bool :=
  if cfg.fixed then decide (remoteAck + 1 > appendIdx) else decide (remoteAck > appendIdx)

/-- `remoteReplicator.IsReady` from `r.closeStream()` on (state ≠ ready, follower live). -/
def handshake (cfg : Cfg) (s : St) (f : Fault) : St × Bool :=
  let s := { s with stream := .none }                          -- closeStream
  if f = .cli then ({ s with chan := .failure }, false)       -- CreateReplicaServiceClient err
  else if f = .getack then ({ s with chan := .failure }, false) -- getLastAckIdxFromReplica err
  else
    let remoteAck := replicaAckIndex s.F                        -- remoteLastReplicaAckIdx
    let localIdx := s.cons + 1                                  -- r.ReplicaIndex()
    let next := remoteAck + 1                                   -- nextReplicaIdx
    if next = localIdx then ({ s with chan := .ready }, true)
    else
      let appendIdx := s.L.app + 1                              -- r.AppendIndex()
      let smallestAck := s.gack                                 -- r.AckIndex()
      if remoteAck < smallestAck then
        let need := smallestAck + 1
        if f = .reset then ({ s with chan := .failure }, false)
        else
          let s := { s with F := followerReset s.F need }       -- ReplicaHandler.Reset
          let s := resetReplicaIndex s need
          ({ s with chan := .ready }, true)
      else
        let s := if aheadFires cfg remoteAck appendIdx then resetAppendIndex s next else s
        let s := resetReplicaIndex s next
        let s := ackGroup s remoteAck
        if s.cons + 1 = next then ({ s with chan := .ready }, true)
        else ({ s with chan := .failure }, false)

/-- `remoteReplicator.IsReady`. Second component: returned true. When the follower is not
live the real call parks on `<-r.suspend`; the model records `susp` and returns false. -/
def isReady (cfg : Cfg) (s : St) (f : Fault) : St × Bool :=
  if s.chan = .ready then (s, true)
  else if s.live = false then ({ s with chan := .failure, susp := true }, false)
  else handshake cfg s f

/-- `remoteReplicator.Connect` -/
def connect (s : St) (f : Fault) : St × Bool :=
  if s.stream ≠ .none then (s, true)
  else if f = .connect then ({ s with chan := .failure }, false)
  else ({ s with stream := .up, chan := .ready }, true)

/-- what one `partition.replica` call did -/
inductive Out
  | suspended   -- loop is parked, nothing ran
  | parked      -- IsReady found the follower offline and parked
  | notready    -- IsReady or Connect returned false
  | idle        -- Consume had nothing
  | ignored     -- GetMessage failed → IgnoreMessage
  | sendfail | recvfail
  | acked       -- answer = sent index → SetAckIndex
  | mismatch    -- answer ≠ sent index ("TODO: need reset ack sequence?")
  deriving Repr, DecidableEq

/-- `remoteReplicator.Replica(idx, msg)` with the follower's handler inlined -/
def replicaSend (s : St) (idx : Int) (m : Msg) (f : Fault) : St × Out :=
  if s.stream ≠ .up ∨ f = .send then ({ s with chan := .failure }, .sendfail)
  else
    let (F', ackIdx) := replicaLog s.F idx m      -- resp.ReplicaIndex = idx, resp.AckIndex = ackIdx
    let s := { s with F := F' }
    if f = .recv then ({ s with chan := .failure }, .recvfail)
    else if ackIdx = idx then (ackGroup s ackIdx, .acked)
    else (s, .mismatch)

/-- `partition.replica` after `IsReady() && Connect()` succeeded: Consume, GetMessage, Replica -/
def sendPhase (s : St) (f : Fault) : St × Out :=
  let (s, seq) := consume s
  if seq < 0 then (s, .idle)
  else
    match s.L.get seq with
    | none => (ignoreMessage s seq, .ignored)
    | some m => replicaSend s seq m f

/-- `partition.replica` from a non-parked loop -/
def replicaStep (cfg : Cfg) (s : St) (f : Fault) : St × Out :=
  let (s, ok) := isReady cfg s f
  if ok then
    let (s, ok) := connect s f
    if ok then sendPhase s f else (s, .notready)
  else (s, if s.susp then .parked else .notready)

/-- re-opening the leader's partition directory: `NewConsumerGroup` lifts a group's ack to the
queue's ack; a new `remoteReplicator` starts in `init` with no stream -/
def reopenLeader (s : St) (L : Log) (cons gack oack : Int) : St :=
  { s with L := L, cons := cons,
           gack := if gack < L.ack then L.ack else gack,
           oack := if oack < L.ack then L.ack else oack,
           chan := .init, stream := .none, susp := false }

inductive Ev
  | append (m : Msg)     -- partition.WriteLog on the leader
  | step (f : Fault)     -- one partition.replica call
  | frestart             -- follower process restarts (its log survives, the stream does not)
  | flose                -- follower restarts with an empty log directory
  | lsnap                -- take an image of the leader's partition directory
  | lrestore             -- leader restarts from the image (= loses its log tail)
  | lrestart             -- leader restarts on its current directory
  | offline              -- follower disappears from the live nodes
  | online (f : Fault)   -- follower (re)appears; a parked loop resumes its replica call
  | gc                   -- partition.IsExpire's `log.Sync(); log.Queue().GC()`
  | oack (n : Int)       -- the other consumer group acknowledges up to n
  deriving Repr, DecidableEq

def brokenStream (st : Stream) : Stream :=
  match st with
  | .none => .none
  | _ => .broken

def next (cfg : Cfg) (s : St) : Ev → St × Out
  | .append m => (if m = [] then s else { s with L := s.L.put m }, .idle)
  | .step f => if s.susp then (s, .suspended) else replicaStep cfg s f
  | .frestart => ({ s with stream := brokenStream s.stream }, .idle)
  | .flose => ({ s with F := Log.empty, stream := brokenStream s.stream }, .idle)
  | .lsnap => ({ s with img := some { L := s.L, cons := s.cons, gack := s.gack, oack := s.oack } }, .idle)
  | .lrestore =>
    match s.img with
    | none => (s, .idle)
    | some im => (reopenLeader s im.L im.cons im.gack im.oack, .idle)
  | .lrestart => (reopenLeader s s.L s.cons s.gack s.oack, .idle)
  | .offline => ({ s with live := false }, .idle)
  | .online f =>
    let s := { s with live := true }
    if s.susp then replicaStep cfg { s with susp := false } f else (s, .idle)
  | .gc =>
    let a0 := s.L.app
    let a1 := if s.gack < a0 then s.gack else a0
    let a2 := if s.oack < a1 then s.oack else a1
    (if 0 ≤ a2 then { s with L := s.L.setAck a2 } else s, .idle)
  | .oack n => (if s.oack ≤ n then { s with oack := n } else s, .idle)

def run (cfg : Cfg) (evs : List Ev) : St := evs.foldl (fun s e => (next cfg s e).1) St.init

/-- the channel as the leader believes it AND the stream really there -/
def Synced (s : St) : Prop := s.chan = .ready ∧ s.stream = .up

instance (s : St) : Decidable (Synced s) := by unfold Synced; infer_instance

end LinVerif.Replication
