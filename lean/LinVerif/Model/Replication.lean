/-
Model of WAL replication between a leader partition and TWO followers (property C08).
Core Lean only.

Go code mirrored (branch for branch):
  replica/partition.go          partition.replica, ReplicaLog, ReplicaAckIndex, ResetReplicaIndex,
                                WriteLog, IsExpire (Sync + GC, the drained test, stopReplicator)
  replica/replicator.go         Consume, GetMessage, ReplicaIndex, AckIndex, AppendIndex,
                                ResetReplicaIndex, ResetAppendIndex, SetAckIndex, IgnoreMessage
  replica/replicator_remote.go  IsReady (handshake), Connect, Replica, closeStream,
                                handleNodeStateChangeEvent
  app/storage/rpc/replica.go    ReplicaHandler.Replica (loop body), GetReplicaAckIndex, Reset
  pkg/queue/queue.go            the two counters appendedSeq/acknowledgedSeq, Put, Get
                                (validateSequence), SetAppendedSeq, SetAcknowledgedSeq
  pkg/queue/fanout_queue.go     SetAppendedSeq (queue + every group), Sync, StopConsumerGroup
  pkg/queue/consumer_group.go   consume, Ack, SetConsumedSeq, SetSeq, IsEmpty, NewConsumerGroup (re-open)

A log is NOT modelled as "base + list" (that would make "no holes" true by construction):
it is the two counters the queue keeps plus a position-indexed store (the index/data pages),
exactly as `queue.Get` sees it: a position is readable iff `ack < i ≤ app` and then the
page content is returned.  `SetAppendedSeq` moves both counters and leaves the pages alone.

The state is written from the point of view of follower A (fields without suffix); follower B
has the same fields with suffix `2`. All functions act on A; B's events are A's events
conjugated with `swap`. The two followers interact only through the leader's queue: GC takes
the minimum of both groups' acks, and `ResetAppendIndex` (fanOutQueue.SetAppendedSeq) moves the
queue AND every consumer group.

Sequences are `Int` (Go int64; -1 = "nothing yet"); no overflow is modelled.
-/
namespace LinVerif.Replication

/-- message payload (bytes) -/
abbrev Msg := List Nat

/-- newest write first; `lookup` returns the newest write to position `i` -/
def lookup (i : Int) : List (Int × Msg) → Option Msg
  | [] => none
  | (k, m) :: t => if k = i then some m else lookup i t

/-- pkg/queue `queue`: acknowledgedSeq, appendedSeq, index+data pages -/
structure Log where
  ack : Int
  app : Int
  store : List (Int × Msg)
  deriving Repr, DecidableEq

/-- `NewQueue` on an empty directory -/
def Log.empty : Log := { ack := -1, app := -1, store := [] }

/-- `queue.Get`: `validateSequence` (`sequence > appended || sequence <= acknowledged` ⇒ error), then the pages -/
def Log.get (l : Log) (i : Int) : Option Msg :=
  if l.ack < i ∧ i ≤ l.app then lookup i l.store else none

/-- `queue.Put`: the message gets sequence `appendedSeq + 1` -/
def Log.put (l : Log) (m : Msg) : Log :=
  { l with app := l.app + 1, store := (l.app + 1, m) :: l.store }

/-- `queue.SetAppendedSeq`: appendedSeq and acknowledgedSeq both become `k` -/
def Log.setAppended (l : Log) (k : Int) : Log := { l with ack := k, app := k }

/-- `queue.SetAcknowledgedSeq`: only forward and never beyond appendedSeq -/
def Log.setAck (l : Log) (a : Int) : Log :=
  if l.ack < a ∧ a ≤ l.app then { l with ack := a } else l

/-- models.ReplicatorState -/
inductive Chan | init | ready | failure
  deriving Repr, DecidableEq

/-- `remoteReplicator.replicaStream`: nil / usable / non-nil but the follower side is gone -/
inductive Stream | none | up | broken
  deriving Repr, DecidableEq

/-- where an injected connection fault strikes in the current step (at most one per step) -/
inductive Fault
  | none
  | cli       -- CreateReplicaServiceClient fails
  | getack    -- GetReplicaAckIndex rpc fails
  | reset     -- Reset rpc fails
  | connect   -- replicaCli.Replica(ctx) (stream creation) fails
  | send      -- the request is lost: stream.Send fails, or Send succeeds, the request never reaches
              -- the follower and Recv fails — the same for both sides' state
  | recv      -- request delivered and handled, stream.Recv fails
  | put       -- request delivered, the FOLLOWER's queue.Put fails (storage fault on the follower), answer delivered
  deriving Repr, DecidableEq

/-- the shape of the comparison that guards `ResetAppendIndex` in IsReady.
`fixed = true` : `nextReplicaIdx > appendIdx` (follower strictly ahead; the tree as it is now);
`fixed = false`: `remoteLastReplicaAckIdx > appendIdx` (before fix 32eabc8). Selected by the
regenerated fact `Generated.C08.aheadFixed`. -/
structure Cfg where
  fixed : Bool
  /-- shape of Replica's treatment of an answer that does not acknowledge the sent index (or carries an
  error): `false` = the tree as it is ("TODO: need reset ack sequence?": statistics only, state stays
  `ready`); `true` = the repair under evaluation: store ReplicatorFailureState so that the next IsReady
  runs the handshake. Selected by the regenerated fact `Generated.C08.mismatchSetsFailure`. -/
  mfail : Bool
  /-- shape of the wake-up in `handleNodeStateChangeEvent`: `true` = the plain blocking channel send
  `r.suspend <- struct{}{}` (the tree as it is): the handler waits for the loop's receive; `false` = a
  non-blocking send (select/default): it succeeds only if the loop is already blocked in the receive.
  Selected by the regenerated fact `Generated.C08.wakeSendBlocking`. -/
  wake : Bool
  /-- the TOKEN shape of the suspend / wake-up handshake (candidate repair `fixes/C08-suspend-token.patch`):
  `r.suspend` has capacity 1, the handler leaves (at most) one token on EVERY NodeOnline with a non-blocking
  send and does not touch the flag, the loop clears `isSuspend` after its receive. `true` overrides `wake`.
  Selected by the regenerated fact `Generated.C08.suspendChanBuffered` (`Tie.wake_shape` pins the rest of the
  shape: handler conditions, kind of send, the loop's program in the offline branch). A stale token is not
  part of the state: it makes the loop go once more round IsReady's offline branch (receive, clear, liveness
  test, mark, block) inside the same atomic event, with the same final state. -/
  tok : Bool := false
  deriving Repr, DecidableEq

/-- image of the leader partition directory (queue + both followers' groups) -/
structure Img where
  L : Log
  cons : Int
  gack : Int
  born : Bool
  cons2 : Int
  gack2 : Int
  born2 : Bool
  deriving Repr, DecidableEq

structure St where
  L : Log            -- leader's queue
  -- follower A: its consumer group on the leader, its log, the leader's remoteReplicator for it
  cons : Int         -- consumedSeq
  gack : Int         -- acknowledgedSeq
  F : Log            -- follower's queue
  chan : Chan        -- remoteReplicator.state
  stream : Stream    -- remoteReplicator.replicaStream
  live : Bool        -- stateMgr.GetLiveNode(follower)
  susp : Bool        -- remoteReplicator.isSuspend
  parked : Bool      -- the replica loop is blocked in `<-r.suspend` (or about to: between the CAS and the receive)
  closed : Bool      -- the follower partition the open stream's handler holds has been closed (and destroyed) under it
  dz : Bool          -- ghost: the OTHER follower's handshake moved this group (ResetAppendIndex) while this channel was ready
  stopped : Bool     -- the group is not registered on the leader (never created, or stopped by IsExpire): no replicator
  born : Bool        -- the group's directory exists on the leader
  -- follower B
  cons2 : Int
  gack2 : Int
  F2 : Log
  chan2 : Chan
  stream2 : Stream
  live2 : Bool
  susp2 : Bool
  parked2 : Bool
  closed2 : Bool
  dz2 : Bool
  stopped2 : Bool
  born2 : Bool
  imgs : List Img    -- saved images of the leader's partition directory, newest first
  gone : Bool        -- IsExpire reported the partition expired (writeAheadLog.destroy removes it)
  deriving Repr, DecidableEq

/-- the partition as `BuildReplicaForLeader(leader, [A])` leaves it on an empty directory: follower A's
group exists, follower B has not been added yet -/
def St.init : St :=
  { L := Log.empty,
    cons := -1, gack := -1, F := Log.empty, chan := .init, stream := .none, live := true, susp := false, parked := false,
    closed := false, dz := false, stopped := false, born := true,
    cons2 := -1, gack2 := -1, F2 := Log.empty, chan2 := .init, stream2 := .none, live2 := true, susp2 := false, parked2 := false,
    closed2 := false, dz2 := false, stopped2 := true, born2 := false,
    imgs := [], gone := false }

def Img.swap (i : Img) : Img :=
  { L := i.L, cons := i.cons2, gack := i.gack2, born := i.born2, cons2 := i.cons, gack2 := i.gack, born2 := i.born }

/-- exchange the roles of follower A and follower B -/
def St.swap (s : St) : St :=
  { L := s.L,
    cons := s.cons2, gack := s.gack2, F := s.F2, chan := s.chan2, stream := s.stream2, live := s.live2,
    susp := s.susp2, parked := s.parked2, closed := s.closed2, dz := s.dz2, stopped := s.stopped2, born := s.born2,
    cons2 := s.cons, gack2 := s.gack, F2 := s.F, chan2 := s.chan, stream2 := s.stream, live2 := s.live,
    susp2 := s.susp, parked2 := s.parked, closed2 := s.closed, dz2 := s.dz, stopped2 := s.stopped, born2 := s.born,
    imgs := s.imgs.map Img.swap, gone := s.gone }

/-! ### follower side (app/storage/rpc/replica.go + partition.go) -/

/-- `partition.ReplicaLog` as called by `ReplicaHandler.Replica`: returns the new log and
`resp.AckIndex` (`resp.ReplicaIndex` is always the offered index).
`appendIdx := AppendedSeq()+1; if replicaIdx != appendIdx { return appendIdx, nil };
if err := Put(msg); err != nil { return -1, err }; return appendIdx, nil` — the handler copies the
first component into `resp.AckIndex` whatever the error is. `putFails`: the follower's `queue.Put` fails. -/
def replicaLog (F : Log) (idx : Int) (m : Msg) (putFails : Bool) : Log × Int :=
  let appendIdx := F.app + 1
  if idx ≠ appendIdx then (F, appendIdx)
  else if putFails then (F, -1)
  else (F.put m, appendIdx)

/-- `partition.ReplicaAckIndex` -/
def replicaAckIndex (F : Log) : Int := F.app

/-- `partition.ResetReplicaIndex(idx)` = `fanOutQueue.SetAppendedSeq(idx-1)` -/
def followerReset (F : Log) (idx : Int) : Log := F.setAppended (idx - 1)

/-! ### leader side: consumer group + replicator accessors (for follower A) -/

/-- `consumerGroup.consume` (the non-blocking part of Consume): -1 = SeqNoNewMessageAvailable -/
def consume (s : St) : St × Int :=
  let head := s.cons + 1
  if head ≤ s.L.app then ({ s with cons := head }, head) else (s, -1)

/-- `consumerGroup.Ack` via `replicator.SetAckIndex`: `ackSeq >= ts && ackSeq <= hs` -/
def ackGroup (s : St) (a : Int) : St :=
  if s.gack ≤ a ∧ a ≤ s.cons then { s with gack := a } else s

/-- `replicator.ResetReplicaIndex(idx)` = `SetConsumedSeq(idx-1)` -/
def resetReplicaIndex (s : St) (idx : Int) : St := { s with cons := idx - 1 }

/-- `replicator.ResetAppendIndex(idx)` = `fanOutQueue.SetAppendedSeq(idx-1)`: the queue and EVERY
registered consumer group of the partition, i.e. the other follower's group too unless IsExpire has
stopped it (ghost `dz2` records that the other channel was ready when that happened) -/
def resetAppendIndex (s : St) (idx : Int) : St :=
  { s with L := s.L.setAppended (idx - 1), cons := idx - 1, gack := idx - 1,
           cons2 := if s.stopped2 then s.cons2 else idx - 1,
           gack2 := if s.stopped2 then s.gack2 else idx - 1,
           dz2 := if s.chan2 = .ready then true else s.dz2 }

/-- `replicator.IgnoreMessage` -/
def ignoreMessage (s : St) (idx : Int) : St :=
  if s.gack + 1 = idx then ackGroup s idx else s

/-- guard of `ResetAppendIndex` in IsReady's switch -/
def aheadFires (cfg : Cfg) (remoteAck appendIdx : Int) : Bool :=
  if cfg.fixed then decide (remoteAck + 1 > appendIdx) else decide (remoteAck > appendIdx)

/-- `remoteReplicator.IsReady` from `r.closeStream()` on (state ≠ ready, follower live). -/
def handshake (cfg : Cfg) (s : St) (f : Fault) : St × Bool :=
  let s := { s with stream := .none, dz := false }             -- closeStream
  if f = .cli then ({ s with chan := .failure }, false)       -- CreateReplicaServiceClient err
  else if f = .getack then ({ s with chan := .failure }, false) -- getLastAckIdxFromReplica err
  else
    let remoteAck := replicaAckIndex s.F                        -- remoteLastReplicaAckIdx
    let localIdx := s.cons + 1                                  -- r.ReplicaIndex()
    let next := remoteAck + 1                                   -- nextReplicaIdx
    if next = localIdx then ({ s with chan := .ready }, true)
    else
      let appendIdx := s.L.app + 1                              -- r.AppendIndex()
      let smallestAck := s.gack                                 -- r.AckIndex()
      if remoteAck < smallestAck then
        let need := smallestAck + 1
        if f = .reset then ({ s with chan := .failure }, false)
        else
          let s := { s with F := followerReset s.F need }       -- ReplicaHandler.Reset
          let s := resetReplicaIndex s need
          ({ s with chan := .ready }, true)
      else
        let s := if aheadFires cfg remoteAck appendIdx then resetAppendIndex s next else s
        let s := resetReplicaIndex s next
        let s := ackGroup s remoteAck
        if s.cons + 1 = next then ({ s with chan := .ready }, true)
        else ({ s with chan := .failure }, false)

/-- `remoteReplicator.IsReady`. Second component: returned true. When the follower is not
live the real call marks itself suspended (`isSuspend.CompareAndSwap(false, true)`) and then blocks on
`<-r.suspend`; the model records `susp` and `parked` and returns false (the two steps are one here; an
online notification that lands BETWEEN them is the event `steponl`). -/
def isReady (cfg : Cfg) (s : St) (f : Fault) : St × Bool :=
  if s.chan = .ready then (s, true)
  else if s.live = false then ({ s with chan := .failure, susp := true, parked := true }, false)
  else handshake cfg s f

/-- `remoteReplicator.Connect` -/
def connect (s : St) (f : Fault) : St × Bool :=
  if s.stream ≠ .none then (s, true)
  else if f = .connect then ({ s with chan := .failure }, false)
  else ({ s with stream := .up, chan := .ready, closed := false }, true)   -- the new stream's handler resolves the current partition

/-- what one event did -/
inductive Out
  | suspended   -- loop is parked, nothing ran
  | parked      -- IsReady found the follower offline and parked
  | notready    -- IsReady or Connect returned false
  | idle        -- Consume had nothing / the event is not a replica step
  | ignored     -- GetMessage failed → IgnoreMessage
  | sendfail | recvfail
  | acked       -- answer = sent index → SetAckIndex
  | mismatch    -- answer ≠ sent index ("TODO: need reset ack sequence?")
  | noreplicator -- the replicator was removed by IsExpire
  | expired     -- IsExpire returned true
  | gone        -- the partition was destroyed before
  deriving Repr, DecidableEq

/-- `remoteReplicator.Replica(idx, msg)` with the follower's handler inlined -/
def replicaSend (cfg : Cfg) (s : St) (idx : Int) (m : Msg) (f : Fault) : St × Out :=
  if s.stream ≠ .up ∨ f = .send then ({ s with chan := .failure }, .sendfail)
  else
    -- ReplicaLog on a closed partition: `return 0, ErrPartitionClosed` before anything else
    let (F', ackIdx) := if s.closed then (s.F, 0) else replicaLog s.F idx m (decide (f = .put))   -- resp.ReplicaIndex = idx, resp.AckIndex = ackIdx
    let respErr := s.closed || decide (f = .put ∧ idx = s.F.app + 1)   -- resp.Err is set
    let s := { s with F := F' }
    if f = .recv then ({ s with chan := .failure }, .recvfail)
    else if respErr = false ∧ ackIdx = idx then (ackGroup s ackIdx, .acked)   -- `resp.Err == "" && resp.AckIndex == resp.ReplicaIndex`
    else if cfg.mfail then ({ s with chan := .failure }, .mismatch)   -- repaired shape: force a handshake
    else ({ s with dz := true }, .mismatch)   -- state stays `ready`; ghost: the channel is out of step until the next handshake

/-- `partition.replica` after `IsReady() && Connect()` succeeded: Consume, GetMessage, Replica -/
def sendPhase (cfg : Cfg) (s : St) (f : Fault) : St × Out :=
  let (s, seq) := consume s
  if seq < 0 then (s, .idle)
  else
    match s.L.get seq with
    | none => (ignoreMessage s seq, .ignored)
    | some m => replicaSend cfg s seq m f

/-- `partition.replica` from a non-parked loop -/
def replicaStep (cfg : Cfg) (s : St) (f : Fault) : St × Out :=
  let (s, ok) := isReady cfg s f
  if ok then
    let (s, ok) := connect s f
    if ok then sendPhase cfg s f else (s, .notready)
  else (s, if s.parked then .parked else .notready)

/-- `NewConsumerGroup` on an existing group directory: the ack is lifted to the queue's ack and the
consumed sequence to the (lifted) ack -/
def liftAck (gack qack : Int) : Int := if gack < qack then qack else gack
def liftCons (cons gack' : Int) : Int := if cons < gack' then gack' else cons

/-- re-opening the leader's partition directory; new `remoteReplicator`s start in `init` with no
stream; every group directory that exists in the image is loaded again and gets its replicator -/
def reopenLeader (s : St) (im : Img) : St :=
  { s with L := im.L,
           cons := if im.born then liftCons im.cons (liftAck im.gack im.L.ack) else -1,
           gack := if im.born then liftAck im.gack im.L.ack else -1,
           cons2 := if im.born2 then liftCons im.cons2 (liftAck im.gack2 im.L.ack) else -1,
           gack2 := if im.born2 then liftAck im.gack2 im.L.ack else -1,
           chan := .init, stream := .none, susp := false, parked := false, dz := false, stopped := !im.born, born := im.born,
           chan2 := .init, stream2 := .none, susp2 := false, parked2 := false, dz2 := false, stopped2 := !im.born2, born2 := im.born2 }

def St.image (s : St) : Img :=
  { L := s.L, cons := s.cons, gack := s.gack, born := s.born, cons2 := s.cons2, gack2 := s.gack2, born2 := s.born2 }

/-- `fanOutQueue.Sync` + `queue.GC`: the queue's ack becomes the smallest ack of the groups that
are still registered (start value: appended), when that is ≥ 0; no group at all: nothing -/
def syncGC (s : St) : St :=
  if s.stopped = true ∧ s.stopped2 = true then s
  else
    let a0 := s.L.app
    let a1 := if s.stopped = false ∧ s.gack < a0 then s.gack else a0
    let a2 := if s.stopped2 = false ∧ s.gack2 < a1 then s.gack2 else a1
    if 0 ≤ a2 then { s with L := s.L.setAck a2 } else s

/-- `partition.stopReplicator`: the group is closed and removed from the fan-out queue, the
replicator is closed (its stream too) and removed; its state is not observable any more, the model
parks it at `init`/no stream -/
def stopA (s : St) : St := { s with stopped := true, stream := .none, chan := .init }
def stopB (s : St) : St := { s with stopped2 := true, stream2 := .none, chan2 := .init }

/-- `partition.IsExpire` on a family past its write window: Sync, GC, then every registered group
with nothing un-ACKNOWLEDGED (`consumerGroup.IsEmpty`: appended ≤ acknowledged) is stopped
together with its replicator (the replicator object is gone: its state is not observable any more,
the model parks it at `init`/no stream); expired iff no group has data -/
def expire (s : St) : St × Out :=
  let t := syncGC s
  let t1 := if t.stopped = false ∧ t.L.app ≤ t.gack then stopA t else t          -- A's group IsEmpty
  let t2 := if t.stopped2 = false ∧ t.L.app ≤ t.gack2 then stopB t1 else t1
  let hasData := (t.stopped = false ∧ ¬ t.L.app ≤ t.gack) ∨ (t.stopped2 = false ∧ ¬ t.L.app ≤ t.gack2)
  if hasData then (t2, .idle) else ({ t2 with gone := true }, .expired)

inductive Who | a | b
  deriving Repr, DecidableEq

inductive Ev
  | append (m : Msg)          -- partition.WriteLog on the leader
  | step (w : Who) (f : Fault) -- one partition.replica call for follower w
  | frestart (w : Who)        -- follower process restarts (its log survives, the stream does not)
  | flose (w : Who)           -- follower restarts with an empty log directory
  | lsnap                     -- take an image of the leader's partition directory
  | lrestore (k : Nat)        -- leader restarts from the k-th newest image (= loses its log tail); newer images are discarded
  | lrestart                  -- leader restarts on its current directory
  | offline (w : Who)         -- follower disappears from the live nodes (stateManager.onNodeFailure: the pooled connection is closed)
  | online (w : Who) (f : Fault) -- follower (re)appears; a parked loop resumes its replica call
  | steponl (w : Who) (f : Fault) -- a replica call that finds the follower offline and marks itself suspended, and the
                                  -- online notification arrives BEFORE the loop blocks on the receive
  | steppre (w : Who) (f : Fault) -- a replica call whose liveness test (`GetLiveNode`) finds the follower offline, and the
                                  -- online notification is handled BEFORE the loop's `isSuspend.CompareAndSwap(false, true)`
  | fclose (w : Who)          -- the follower's partition is closed and destroyed under the leader's (possibly open) stream:
                              -- the follower's WAL GC (writeAheadLog.destroy) or writeAheadLog.Close; a fresh empty partition serves later rpcs
  | join (w : Who)            -- BuildReplicaForLeader(leader, [w]): add follower w to the partition (or re-add it after IsExpire stopped it)
  | gc                        -- log.Sync(); log.Queue().GC() (IsExpire on a family inside its write window)
  | expire                    -- IsExpire on a family past its write window
  deriving Repr, DecidableEq

def brokenStream (st : Stream) : Stream :=
  match st with
  | .none => .none
  | _ => .broken

/-- `handleNodeStateChangeEvent(NodeOnline)` with the loop either running or already blocked in the
receive: `isSuspend.CompareAndSwap(true, false)` and the wake-up (either shape of the send finds its
receiver); the released loop re-runs IsReady and goes on with its replica call -/
def onlineEv (cfg : Cfg) (s : St) (f : Fault) : St × Out :=
  let s := { s with live := true }
  if s.stopped then (s, .noreplicator)
  else if s.susp then replicaStep cfg { s with susp := false, parked := false } f else (s, .idle)

/-- events of follower A -/
def peerEv (cfg : Cfg) (s : St) : Ev → St × Out
  | .step _ f =>
    if s.stopped then (s, .noreplicator)
    else if s.parked then (s, .suspended) else replicaStep cfg s f
  | .frestart _ => ({ s with stream := brokenStream s.stream }, .idle)
  | .flose _ => ({ s with F := Log.empty, stream := brokenStream s.stream }, .idle)
  | .fclose _ => ({ s with F := Log.empty, closed := true, dz := true }, .idle)
  | .offline _ => ({ s with live := false, stream := brokenStream s.stream }, .idle)   -- onNodeFailure: watchers notified, then CloseClientConn: every stream on the pooled connection dies
  | .join _ =>
    -- buildReplica: an existing replicator is kept; else GetOrCreateConsumerGroup + a new remoteReplicator.
    -- NewConsumerGroup: an existing group directory is loaded with the re-open lifts, a brand-new group
    -- starts with consumed = acknowledged = the QUEUE's acknowledged sequence
    if s.stopped = false then (s, .idle)
    else if s.born then
      ({ s with cons := liftCons s.cons (liftAck s.gack s.L.ack), gack := liftAck s.gack s.L.ack,
                stopped := false, chan := .init, stream := .none, susp := false, parked := false, dz := false }, .idle)
    else
      ({ s with cons := s.L.ack, gack := s.L.ack, born := true,
                stopped := false, chan := .init, stream := .none, susp := false, parked := false, dz := false }, .idle)
  | .online _ f => onlineEv cfg s f
  | .steponl _ f =>
    if s.stopped = false ∧ s.parked = false ∧ s.chan ≠ .ready ∧ s.live = false then
      -- IsReady: GetLiveNode fails, isSuspend.CompareAndSwap(false, true), state := failure ... (window) ...
      let s := { s with chan := .failure, susp := true }
      -- ... the follower comes online: handleNodeStateChangeEvent's CAS(true, false) succeeds, then the send
      -- (token shape: the handler leaves a token, the loop's receive takes it and the LOOP clears the flag)
      let s := { s with live := true, susp := false }
      if cfg.tok || cfg.wake then
        -- blocking send: the handler waits; the loop's `<-r.suspend` takes the token and IsReady runs again
        replicaStep cfg s f
      else
        -- non-blocking send: nobody is receiving yet, the token is dropped; the loop then blocks for good
        ({ s with parked := true }, .parked)
    else onlineEv cfg s f
  | .steppre _ f =>
    if s.stopped = false ∧ s.parked = false ∧ s.chan ≠ .ready ∧ s.live = false then
      -- IsReady: GetLiveNode fails ... (window) ... stateManager.onNodeStartup: the node is live again, the
      -- handler's `isSuspend.CompareAndSwap(true, false)` FAILS (the flag is still false): it does nothing ...
      -- ... the loop goes on: CAS(false, true), state := failure, `<-r.suspend` — blocked although the follower is live
      if cfg.tok then
        -- token shape: the handler has left a token; the loop marks itself, its receive takes the token at once,
        -- it clears the flag and IsReady runs again — the follower is live: the handshake
        replicaStep cfg { s with live := true, chan := .failure, susp := false } f
      else
        ({ s with live := true, chan := .failure, susp := true, parked := true }, .parked)
    else onlineEv cfg s f
  | _ => (s, .idle)

def Ev.who : Ev → Option Who
  | .step w _ => some w
  | .frestart w => some w
  | .flose w => some w
  | .offline w => some w
  | .online w _ => some w
  | .fclose w => some w
  | .steponl w _ => some w
  | .steppre w _ => some w
  | .join w => some w
  | _ => none

def next (cfg : Cfg) (s : St) (e : Ev) : St × Out :=
  if s.gone then (s, .gone) else
  match e.who with
  | some .a => peerEv cfg s e
  | some .b => let r := peerEv cfg s.swap e; (r.1.swap, r.2)
  | none =>
    match e with
    | .append m => (if m = [] then s else { s with L := s.L.put m }, .idle)
    | .lsnap => ({ s with imgs := s.image :: s.imgs }, .idle)
    | .lrestore k =>
      match s.imgs.drop k with
      | [] => (s, .idle)
      | im :: rest => ({ reopenLeader s im with imgs := im :: rest }, .idle)
    | .lrestart => (reopenLeader s s.image, .idle)
    | .gc => (syncGC s, .idle)
    | .expire => expire s
    | _ => (s, .idle)

def run (cfg : Cfg) (evs : List Ev) : St := evs.foldl (fun s e => (next cfg s e).1) St.init

/-- the channel to follower A as the leader believes it AND the stream really there -/
def Synced (s : St) : Prop := s.chan = .ready ∧ s.stream = .up

instance (s : St) : Decidable (Synced s) := by unfold Synced; infer_instance

/-! ## side model 1: `partition.replicators` / `partition.replicatorStatistics`, one follower

`buildReplica` publishes an entry in BOTH copy-on-write maps, `stopReplicator` (the expiry check on a
drained group) removes the follower from `p.replicators` only. In the main model `stopped = !repl`;
the `join` event's guard `s.stopped` is buildReplica's existence test on `p.replicators`. -/
namespace Maps

inductive Sel | repl | stats
  deriving DecidableEq, Repr

structure M where
  repl : Bool    -- follower ∈ p.replicators
  stats : Bool   -- follower ∈ p.replicatorStatistics
  deriving DecidableEq, Repr

def M.has (m : M) : Sel → Bool
  | .repl => m.repl
  | .stats => m.stats

/-- `buildReplica` whose "already built" test reads map `t` -/
def build (t : Sel) (m : M) : M := if m.has t then m else { repl := true, stats := true }

/-- `stopReplicator` -/
def stop (m : M) : M := if m.repl then { m with repl := false } else m

inductive Op | build | stop
  deriving DecidableEq, Repr

def step (t : Sel) (m : M) : Op → M
  | .build => build t m
  | .stop => stop m

def run (t : Sel) (ops : List Op) : M := ops.foldl (step t) { repl := false, stats := false }

end Maps

/-! ## side model 2: the leader's pooled connection to one follower and the replicator's client stub

`rpc.clientConnFactory`: one `*grpc.ClientConn` per node, dialled on demand; `CloseClientConn`
(called by `stateManager.onNodeFailure` after the watchers were notified) closes it and removes it from
the pool. `CreateReplicaServiceClient` = a stub bound to the connection `GetClientConn` returns at that
moment; a stub on a closed connection fails every call. In the main model the unary calls of the
handshake fail only by injected faults (`cli`, `getack`, `reset`): that is this model's `stubAlive`
for a stub created by the very handshake that uses it. -/
namespace Conn

structure C where
  pool : Option Nat   -- id of the pooled connection (none: never dialled, or closed and removed)
  next : Nat          -- ids handed out so far
  stub : Option Nat   -- the connection `r.replicaCli` is bound to
  deriving DecidableEq, Repr

def C.init : C := { pool := none, next := 0, stub := none }

/-- `connFct.GetClientConn` -/
def getConn (c : C) : C × Nat :=
  match c.pool with
  | some i => (c, i)
  | none => ({ c with pool := some c.next, next := c.next + 1 }, c.next)

/-- `onNodeFailure` → `CloseClientConn`: close + remove -/
def offline (c : C) : C := { c with pool := none }

/-- a call through the stub goes through iff its connection is the open pooled one -/
def stubAlive (c : C) : Bool :=
  match c.stub with
  | some i => c.pool == some i
  | none => false

/-- the client step of a handshake. `perHandshake = true`: IsReady creates the stub on every
handshake; `false`: only when the replicator has none yet (a cached stub) -/
def handshakeClient (perHandshake : Bool) (c : C) : C :=
  if perHandshake || c.stub.isNone then
    let (c, i) := getConn c
    { c with stub := some i }
  else c

inductive Op | offline | handshake
  deriving DecidableEq, Repr

/-- second component: the handshake's rpc went through -/
def step (ph : Bool) (c : C) : Op → C × Bool
  | .offline => (offline c, true)
  | .handshake => let c := handshakeClient ph c; (c, stubAlive c)

def run (ph : Bool) (ops : List Op) : C := ops.foldl (fun c o => (step ph c o).1) C.init

end Conn

/-! ## side model 3: the suspend / wake-up handshake as atomic steps of two threads

Thread L is the partition's replica loop inside `remoteReplicator.IsReady`'s offline branch:
  `test`  `r.stateMgr.GetLiveNode(follower)` (takes the state manager's read lock)
  `mark`  `r.isSuspend.CompareAndSwap(false, true)` (+ statistics, `state.Store(failure)`)
  `block` the loop reaches `<-r.suspend`
  `take`  the receive completes (rendezvous with the handler's send / a buffered token)
Thread H is the storage state manager's event goroutine (`processEvent` holds `m.mutex` for the whole
event, so `test` cannot run while an event is being handled):
  `off`   onNodeFailure: the node leaves `m.nodes` (the handler ignores NodeOffline)
  `on`    onNodeStartup: `m.nodes[id] = node`, then the watcher is called
  `cas`   `handleNodeStateChangeEvent`: `r.isSuspend.CompareAndSwap(true, false)`
  `send`  the wake-up on `r.suspend`
Three shapes of the wake-up: `blocking` (the tree as it is: unbuffered channel, plain send),
`nonblocking` (select/default on the unbuffered channel), `buffered` (candidate repair: channel of
capacity 1, the handler leaves a token on every NodeOnline without testing the flag, the loop clears
the flag after the receive). `hit` is a ghost: an online notification was handled while the loop was
between `test` and `mark`. -/
namespace Wake

inductive Shape | blocking | nonblocking | buffered
  deriving DecidableEq, Repr

inductive LPc | run | seen | marked | recv
  deriving DecidableEq, Repr

inductive HPc | idle | cas | send
  deriving DecidableEq, Repr

structure W where
  live : Bool
  susp : Bool
  lpc : LPc
  hpc : HPc
  tok : Bool    -- a token sits in the (buffered) channel
  hit : Bool    -- ghost
  deriving DecidableEq, Repr

def W.init : W := { live := true, susp := false, lpc := .run, hpc := .idle, tok := false, hit := false }

inductive Step | test | mark | block | take | off | on | cas | send
  deriving DecidableEq, Repr

/-- one atomic step; a step that is not enabled leaves the state unchanged -/
def step (sh : Shape) (w : W) : Step → W
  | .test =>
    if w.lpc = .run ∧ w.hpc = .idle then (if w.live then w else { w with lpc := .seen }) else w
  | .mark =>
    if w.lpc = .seen then
      (if w.susp = false then { w with susp := true, lpc := .marked } else { w with lpc := .run })   -- CAS failed: `return r.IsReady()`
    else w
  | .block => if w.lpc = .marked then { w with lpc := .recv } else w
  | .take =>
    match sh with
    | .buffered => if w.lpc = .recv ∧ w.tok then { w with lpc := .run, tok := false, susp := false } else w
    | _ => if w.lpc = .recv ∧ w.hpc = .send then { w with lpc := .run, hpc := .idle } else w   -- rendezvous
  | .off => if w.hpc = .idle ∧ w.live then { w with live := false } else w
  | .on =>
    if w.hpc = .idle ∧ w.live = false then
      { w with live := true, hpc := .cas, hit := w.hit || decide (w.lpc = .seen) }
    else w
  | .cas =>
    if w.hpc = .cas then
      match sh with
      | .buffered => { w with tok := true, hpc := .idle }            -- `select { case r.suspend <- struct{}{}: default: }`, capacity 1
      | _ => if w.susp then { w with susp := false, hpc := .send } else { w with hpc := .idle }
    else w
  | .send =>
    match sh with
    | .nonblocking =>
      if w.hpc = .send then
        (if w.lpc = .recv then { w with lpc := .run, hpc := .idle } else { w with hpc := .idle })   -- no receiver yet: dropped
      else w
    | _ => w    -- blocking: the send completes only as the rendezvous `take`

def run (sh : Shape) (ss : List Step) : W := ss.foldl (step sh) W.init

/-- the loop is blocked in the receive, the follower is live, no notification is being handled and no
token is waiting: nothing will ever wake the loop (until the follower bounces once more) -/
def Stuck (w : W) : Prop := w.lpc = .recv ∧ w.live = true ∧ w.hpc = .idle ∧ w.tok = false

instance (w : W) : Decidable (Stuck w) := by unfold Stuck; infer_instance

end Wake

/-! ## side model 4: the expiry tick (`partition.IsExpire` past the write window) against the replica
loop's sub-steps and appenders, one follower

`IsExpire` runs on the WAL's GC goroutine, the replica loop on its own goroutine, `WriteLog` on the
writers'. Atomic steps: the loop's `Consume` (consumedSeq moves) and, later, the acknowledgement of
the in-flight sequence (`SetAckIndex`) or its loss; the tick's emptiness test on the group
(`emptyByAck = true`: `consumerGroup.IsEmpty`, appended ≤ ACKNOWLEDGED — the tree as it is;
`false`: a test on `Pending()`, appended − CONSUMED) and, as a separate step, `stopReplicator`. -/
namespace Tick

structure T where
  app : Int
  cons : Int
  gack : Int
  infl : Option Int   -- sequence handed out by Consume whose answer is still outstanding
  verdict : Bool      -- the tick has tested the group and found it empty; stopReplicator not yet run
  stopped : Bool
  late : Bool         -- ghost: an append landed after the last emptiness test that found the group empty, before its stopReplicator
  hs : Bool := false  -- the last request was lost: the channel is in `failure`, the next loop iteration starts with the handshake,
                      -- which rewinds the consumed sequence to the follower's appended index (= the acknowledged one: one follower,
                      -- requests are lost before they reach it)
  deriving DecidableEq, Repr

def T.init : T := { app := -1, cons := -1, gack := -1, infl := none, verdict := false, stopped := false, late := false, hs := false }

inductive Step | append | consume | ack | lose | test | stop
  deriving DecidableEq, Repr

def step (emptyByAck : Bool) (t : T) : Step → T
  | .append => { t with app := t.app + 1, late := t.late || t.verdict }
  | .consume =>
    -- IsReady's handshake after a lost request: ResetReplicaIndex(follower's next index)
    let c := if t.hs then t.gack else t.cons
    if t.stopped = false ∧ t.infl = none then
      (if c < t.app then { t with cons := c + 1, infl := some (c + 1), hs := false } else { t with cons := c, hs := false })
    else t
  | .ack =>
    match t.infl with
    | some i => if t.stopped = false then { t with gack := i, infl := none } else t
    | none => t
  | .lose =>                              -- the request is lost (Send fails): consumed, never acknowledged; state := failure
    match t.infl with
    | some _ => { t with infl := none, hs := true }
    | none => t
  | .test =>
    if t.stopped = false ∧ t.verdict = false then
      { t with verdict := if emptyByAck then decide (t.app ≤ t.gack) else decide (t.app ≤ t.cons), late := false }
    else t
  | .stop => if t.verdict then { t with stopped := true, verdict := false } else t

def run (e : Bool) (ss : List Step) : T := ss.foldl (step e) T.init

end Tick

/-! ### Side model `WalOpen`: how a leader-side partition comes into being

`writeAheadLog.GetOrCreatePartition` (replica/wal.go), called first by every broker write stream
(`WriteHandler.Write`): under `w.mutex` — lookup in `familyLogs`; when absent: GetShard, GetOrCrateDataFamily,
NewFanOutQueue over the log directory, NewPartition, StartReplica, store in `familyLogs`; unlock on return.
A Partition object owns the in-memory append / consume / acknowledge cursors of one log directory, so the number of
objects per directory is what the log model of this file (one `L` per leader) silently assumes to be one.
Atomic steps of any number of concurrent write streams for ONE key (index = stream):

* `call i`  — stream i enters: it finds the partition (done), or enters the open (held: the slow part, the harness
  holds it inside GetOrCrateDataFamily), or — shape `lockAcross`, the tree's — waits for the mutex (blocked);
* `go i`    — the held stream i finishes the open: one more Partition object over the directory, stored, returned;
  the streams waiting for the mutex then find it;
* `write i` — a returned stream writes one message; `drain` — replication catches up (one object: the `St` model).

`lockAcross = false` is the shape with two critical sections (lookup; store) and no re-check. -/
namespace WalOpen

inductive Pc where | idle | held | blocked | done
  deriving DecidableEq, Repr

structure W where
  pcs : List Pc
  inOpen : Nat := 0     -- streams inside the open (shape lockAcross: the mutex is held iff this is not 0)
  cached : Bool := false -- familyLogs[key] present
  opens : Nat := 0      -- times the log directory was opened
  parts : Nat := 0      -- Partition objects created over the directory
  app : Nat := 0        -- messages accepted by the leader
  fol : Nat := 0        -- messages on the follower at the last drain
  deriving Repr

def W.init (n : Nat) : W := { pcs := List.replicate n .idle }

inductive Step where | call (i : Nat) | go (i : Nat) | write (i : Nat) | drain
  deriving DecidableEq, Repr

def wake : Pc → Pc
  | .blocked => .done
  | p => p

def step (lockAcross : Bool) (w : W) : Step → W
  | .call i =>
    match w.pcs[i]? with
    | some .idle =>
      if w.cached then { w with pcs := w.pcs.set i .done }
      else if lockAcross && decide (0 < w.inOpen) then { w with pcs := w.pcs.set i .blocked }
      else { w with pcs := w.pcs.set i .held, inOpen := w.inOpen + 1, opens := w.opens + 1 }
    | _ => w
  | .go i =>
    match w.pcs[i]? with
    | some .held =>
      let pcs := w.pcs.set i .done
      { w with pcs := if w.inOpen ≤ 1 then pcs.map wake else pcs, inOpen := w.inOpen - 1, cached := true, parts := w.parts + 1 }
    | _ => w
  | .write i =>
    match w.pcs[i]? with
    | some .done => { w with app := w.app + 1 }
    | _ => w
  | .drain => if w.parts ≤ 1 then { w with fol := w.app } else w

def run (lockAcross : Bool) (n : Nat) (ss : List Step) : W := ss.foldl (step lockAcross) (W.init n)

end WalOpen

end LinVerif.Replication
