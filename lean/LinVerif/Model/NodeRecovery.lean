/-
Event-level model of ONE shard family (one leader's write-ahead log) on ONE storage node:
the ORDER of durable effects across pkg/queue (log + the local replicator's consumer group),
replica (localReplicator), tsdb (data family, memory databases, flush checker), kv (manifest
record with table + sequences) and index (metadata / index dictionaries).  Core Lean only.

Go anchors (each def names the function it mirrors):
  replica/partition.go            WriteLog, replica (Consume / GetMessage / Replica)
  replica/replicator_local.go     NewLocalReplicator (AckSequence callback, ResetReplicaIndex), Replica
  replica/replicator.go           IgnoreMessage
  pkg/queue/consumer_group.go     consume, Ack (guard ts ≤ ack ≤ consumed), SetConsumedSeq
  pkg/queue/queue.go              Put, GC
  tsdb/data_family.go             ValidateSequence, WriteRows, CommitSequence, Flush, flushMemoryDatabase,
                                  AckSequence, newDataFamily (seq := persisted sequences)
  tsdb/memdb/database.go          WriteRow, FlushFamilyTo (waits for in-flight writers)
  kv/flusher.go                   Sequence, Commit (NewFile + Sequence in one edit log)
  tsdb/database.go, shard.go      FlushMeta / FlushIndex (PrepareFlush in the worker, Flush in background)
  index/kv_store.go (and the three copies of the pattern in metric_schema_store.go,
  metric_index_database.go)       PrepareFlush / needFlush / Flush / getOrCreateValue

Sequences are `Int` with `-1` = "none yet", exactly the code's initial value for the queue and
the consumer group; the family's per-leader sequence maps are `Option Int` (`none` = the leader has
no entry in the map).  One log entry carries one row `(metric name, tag value)`.

Not modelled (see design note): several leaders / follower consumer groups (C06/C08), torn
writes inside one store operation (C01/C05), id assignment (C09), write failures, and the
goroutine timing inside one event.  The gap between `GetOrCreateMemoryDatabase` and `AcquireWrite`
in `WriteRows` IS modelled (`applyTake` / `applyAcquire`, merged when `Cfg.atomicAcquire`).
-/
namespace LinVerif.NodeRecovery

/-- code-shape parameter regenerated from /repo: does `PrepareFlush` also swap when the immutable
map is non-nil but empty?  (`false` for `if s.immutable == nil {`). -/
structure Cfg where
  swapOnEmpty : Bool
  /-- does `WriteRows` register as a writer of the memory database (`AcquireWrite`) in the same
  family-mutex section that looks the database up?  (`false` for `GetOrCreateMemoryDatabase(...)`
  followed by an unprotected `db.AcquireWrite()`). -/
  atomicAcquire : Bool
  /-- `replicator.IgnoreMessage` acknowledges an unusable entry only when it is the NEXT one after the
  acknowledged position (`currentAck+1 == replicaIdx`); `false` stands for `currentAck < replicaIdx`. -/
  ignoreExact : Bool
deriving DecidableEq, Repr

/-- a row in a memory database / data file: the log entry it came from and the names it uses -/
structure Row where
  seq : Int
  metric : Nat
  tagv : Nat
deriving DecidableEq, Repr, Inhabited

/-- one dictionary store of the index package (`indexKVStore`, `metricSchemaStore`,
`invertedIndex`, `forwardIndex` share the pattern): mutable map, immutable map being flushed,
durable content. -/
structure Dict (α : Type) where
  mutab : List α
  immut : Option (List α)
  dur : List α
deriving Repr

namespace Dict
variable {α : Type} [DecidableEq α]

def empty : Dict α := ⟨[], none, []⟩

def immList (d : Dict α) : List α := d.immut.getD []

/-- `getOrCreateValue`'s lookup: mutable, immutable, then the persistent store -/
def known (d : Dict α) (x : α) : Bool :=
  d.mutab.contains x || d.immList.contains x || d.dur.contains x

/-- `createValue`: a new name goes to the mutable map -/
def create (d : Dict α) (x : α) : Dict α :=
  if d.known x then d else { d with mutab := x :: d.mutab }

/-- `PrepareFlush`: `if s.immutable == nil { s.immutable = s.mutable; s.mutable = new }` -/
def prepare (cfg : Cfg) (d : Dict α) : Dict α :=
  match d.immut with
  | none => { d with immut := some d.mutab, mutab := [] }
  | some [] => if cfg.swapOnEmpty then { d with immut := some d.mutab, mutab := [] } else d
  | some (_ :: _) => d

/-- `Flush`: `if !needFlush() { return nil }` (immutable nil OR EMPTY: nothing happens, in
particular `immutable` is not reset); otherwise write, commit, `immutable = nil`. -/
def flush (d : Dict α) : Dict α :=
  match d.immut with
  | some (x :: l) => { d with dur := d.dur ++ (x :: l), immut := none }
  | _ => d

/-- process death: only the persistent store survives -/
def crash (d : Dict α) : Dict α := ⟨[], none, d.dur⟩

/-- some name exists only in memory -/
def pending (d : Dict α) : Bool := !d.mutab.isEmpty || !d.immList.isEmpty

end Dict

/-- a table file together with the sequence recorded in the SAME manifest record
(`storeFlusher.Commit`: `CreateNewFile` + `CreateSequence` in one edit log) -/
structure DataFile where
  rows : List Row
  stored : Option Int
deriving Repr

/-- the immutable memory database of a running `dataFamily.Flush` -/
structure Frozen where
  rows : List Row
  captured : Option Int   -- `immutableSeq[leader]`, read under the family mutex at the swap
  committed : Bool        -- `FlushFamilyTo` returned: table + sequences are in the manifest
deriving Repr

/-- `localReplicator.Replica` in progress -/
structure InFlight where
  seq : Int
  metric : Nat
  tagv : Nat
  taken : Bool      -- `WriteRows` has its memdb (`GetOrCreateMemoryDatabase`)
  acquired : Bool   -- `db.AcquireWrite()` done: `FlushFamilyTo` of that memdb waits for this writer
  toFrozen : Bool   -- the memdb taken has meanwhile been swapped to immutable
  closed : Bool     -- ... and has been flushed and closed (`memDB.Close`) before the rows were written
  written : Bool    -- `WriteRow` + `row.Wait()` + `CompleteWrite` done, `CommitSequence` not yet
deriving Repr

/-- a replica write that has just passed `ValidateSequence` -/
def InFlight.fresh (s : Int) (m t : Nat) : InFlight :=
  { seq := s, metric := m, tagv := t, taken := false, acquired := false, toFrozen := false,
    closed := false, written := false }

inductive Phase
  | down      -- process dead
  | opened    -- stores recovered, replicator registered its ack callback, not yet rewound
  | running
deriving DecidableEq, Repr

structure St where
  -- durable -----------------------------------------------------------------------------
  log : List (Option (Nat × Nat))  -- payload of entry `i` (queue sequence `i`); `none`: bytes that do not decompress
  gcLow : Int                   -- entries below were truncated by `queue.GC`
  consumed : Int                -- consumer group meta page (mmap store survives a process crash)
  groupAck : Int
  walGone : Bool                -- the partition's log directory was removed by the WAL garbage collector
  files : List DataFile         -- newest first
  stored : Option Int           -- `version.GetSequences()[leader]` of the current manifest
  metric : Dict Nat             -- metric-name (+ schema) dictionary of the metadata database
  tagv : Dict (Nat × Nat)       -- tag-value dictionary (bucket = the metric's tag key)
  index : Dict (Nat × Nat)      -- series / forward / inverted index of the shard
  -- volatile ----------------------------------------------------------------------------
  phase : Phase
  seq : Option Int              -- `dataFamily.seq[leader]`
  memMut : List Row             -- mutable memory database: rows of THIS leader's log entries
  foreignMem : Nat              -- ... and how many rows of other leaders' logs it holds (the family is shared)
  frozen : Option Frozen
  inflight : Option InFlight
deriving Repr

def St.init : St :=
  { log := [], gcLow := 0, consumed := -1, groupAck := -1, walGone := false, files := [], stored := none,
    metric := Dict.empty, tagv := Dict.empty, index := Dict.empty,
    phase := .running, seq := none, memMut := [], foreignMem := 0, frozen := none, inflight := none }

/-- `-1` for "no sequence", as in the code's initial values -/
def ov (o : Option Int) : Int := o.getD (-1)

def St.appended (st : St) : Int := (st.log.length : Int) - 1

inductive Ev
  | append (m t : Nat)   -- partition.WriteLog / queue.Put
  | foreignWrite (m t : Nat)  -- the local replicator of ANOTHER leader's partition wrote a row into the shared family
  | foreignNames (m t : Nat)  -- ... of a partition of ANOTHER FAMILY HOUR of the same shard: only the names (metadata + shard index)
  | foreignMetric (m : Nat)   -- ... of a partition of ANOTHER SHARD: the database-level metric dictionary (GenMetricID)
  | foreignTagv (m t : Nat)   -- ... of another shard, series new THERE: the database-level tag value dictionary (GenTagValueID)
  | appendBad            -- a log entry whose payload is not a snappy block (Replica: Uncompress fails)
  | applyBegin           -- partition.replica: Consume, GetMessage; Replica: ValidateSequence
  | applyGetFail         -- partition.replica: Consume, GetMessage FAILS on an unreadable entry: IgnoreMessage only (no Replica)
  | applyNoRows          -- Replica of an entry that decompresses but yields no rows (empty block / unmarshal panic / WriteRows error): CommitSequence only
  | applyTake            -- WriteRows: GetOrCreateMemoryDatabase (family mutex)
  | applyAcquire         -- WriteRows: db.AcquireWrite()
  | applyWrite           -- WriteRow (names -> metadata/index workers), row.Wait, CompleteWrite
  | applyCommit          -- CommitSequence
  | metaPrepare          -- metadataDatabase.handle: metaDB.PrepareFlush
  | metaFlushMetric      -- metricMetaDatabase.Flush: ns / metric / schema stores
  | metaFlushTagv        --                            tag value store
  | indexPrepare         -- indexDatabase.handle: indexDB.PrepareFlush
  | indexFlush           -- metricIndexDatabase.Flush
  | freeze               -- dataFamily.Flush: swap memdb + capture sequences (under the mutex)
  | dataCommit           -- flushMemoryDatabase: FlushFamilyTo -> kv Commit (table + sequences)
  | ackCallback          -- the callbacks (consumer group Ack), memDB.Close, immutable := nil
  | logGC (k : Int)      -- fanOutQueue.Sync + queue.GC up to page boundary `k`
  | walExpire            -- writeAheadLog.destroy of an expired family: IsExpire (every group IsEmpty) -> remove dir
  | crash
  | recover              -- kv / queue recovery, newDataFamily, NewLocalReplicator: AckSequence(...)
  | rewind               -- NewLocalReplicator: ResetReplicaIndex(AckIndex()+1)
deriving DecidableEq, Repr

/-- `consumerGroup.Ack`: `if ackSeq >= ts && ackSeq <= hs { store }` -/
def ackTo (st : St) (x : Int) : St :=
  if st.groupAck ≤ x ∧ x ≤ st.consumed then { st with groupAck := x } else st

/-- the ack callbacks run only for leaders that have a sequence -/
def ackOpt (st : St) (o : Option Int) : St :=
  match o with
  | some x => ackTo st x
  | none => st

def doAppend (st : St) (m t : Nat) : St :=
  { st with log := st.log ++ [some (m, t)] }

def doAppendBad (st : St) : St :=
  { st with log := st.log ++ [none] }

/-- `replicator.IgnoreMessage(replicaIdx)`: acknowledge the unusable entry if it is the next one -/
def ignoreMsg (cfg : Cfg) (st : St) (s : Int) : St :=
  if (if cfg.ignoreExact then st.groupAck + 1 = s else st.groupAck < s) then ackTo st s else st

/-- `ValidateSequence`: leader absent from the map, or `seq > f.seq[leader]` -/
def validSeq (st : St) (s : Int) : Bool :=
  match st.seq with
  | none => true
  | some q => decide (q < s)

/-- the part of `partition.replica` after `consumerGroup.consume` stored the new head `s` -/
def beginAt (cfg : Cfg) (st : St) (s : Int) : St :=
  if s < st.gcLow then
    -- GetMessage fails: replicator.IgnoreMessage(seq)
    ignoreMsg cfg st s
  else
    match st.log[s.toNat]? with
    | none => st
    | some (some (m, t)) =>
      if validSeq st s then
        { st with inflight := some (InFlight.fresh s m t) }
      else st                                     -- rejected: returns before the deferred commit
    | some none =>
      -- Uncompress fails: the deferred function runs IgnoreMessage(seq) and CommitSequence(seq)
      if validSeq st s then { ignoreMsg cfg st s with seq := some s } else st

def doApplyBegin (cfg : Cfg) (st : St) : St :=
  if st.inflight.isNone ∧ st.consumed + 1 ≤ st.appended then
    beginAt cfg { st with consumed := st.consumed + 1 } (st.consumed + 1)
  else st

/-- `partition.replica` when `replicator.GetMessage(seq)` returns an error (the entry cannot be read:
it carries no usable rows, `none` in the model's log): `replicator.IgnoreMessage(seq)` and nothing
else — `Replica` is not called, so there is NO `ValidateSequence` and NO `CommitSequence`: the family's
sequence stays where it was, only the consumer group moves. -/
def doApplyGetFail (cfg : Cfg) (st : St) : St :=
  if st.inflight.isNone ∧ st.consumed + 1 ≤ st.appended ∧
      st.log[(st.consumed + 1).toNat]? = some none then
    ignoreMsg cfg { st with consumed := st.consumed + 1 } (st.consumed + 1)
  else st

/-- `localReplicator.Replica` of an entry that passes `Uncompress` but from which no row reaches the
memory database: `rowsLen == 0` (return), a panic inside `UnmarshalRows` (the deferred function runs with
`err == nil`, `partition.replica` recovers), or a failing `WriteRows` (its `err` is a shadowed variable:
"drop write failure data"). In all three the deferred function does NOT call `IgnoreMessage` and DOES
call `CommitSequence(seq)`; a rejected sequence returns before the defer is registered. Like every entry
without rows it is `none` in the model's log. -/
def doApplyNoRows (st : St) : St :=
  if st.inflight.isNone ∧ st.consumed + 1 ≤ st.appended ∧
      st.log[(st.consumed + 1).toNat]? = some none then
    if validSeq st (st.consumed + 1) then
      { st with consumed := st.consumed + 1, seq := some (st.consumed + 1) }
    else { st with consumed := st.consumed + 1 }
  else st

def addNames (st : St) (m t : Nat) : St :=
  if st.index.known (m, t) then
    { st with metric := st.metric.create m }                   -- GenMetricID (+ schema: field, tag key)
  else                                                          -- GenSeriesID: new series
    { st with metric := st.metric.create m,
              index := st.index.create (m, t),                  -- series / forward / inverted entries
              tagv := st.tagv.create (m, t) }                   -- GenTagValueID

/-- `WriteRows`: `GetOrCreateMemoryDatabase` — from here on the target memdb is fixed -/
def doApplyTake (cfg : Cfg) (st : St) : St :=
  match st.inflight with
  | some fl =>
    if fl.taken then st
    else { st with inflight := some { fl with taken := true, acquired := cfg.atomicAcquire } }
  | none => st

/-- `WriteRows`: `db.AcquireWrite()` -/
def doApplyAcquire (st : St) : St :=
  match st.inflight with
  | some fl =>
    if fl.taken && !fl.acquired then { st with inflight := some { fl with acquired := true } } else st
  | none => st

/-- the row lands in the memdb that `WriteRows` took at its start; a memdb that was closed in the
meantime is referenced by nobody: the row is gone -/
def putRow (st : St) (toFrozen closed : Bool) (row : Row) : St :=
  if closed then st
  else if toFrozen then
    match st.frozen with
    | some fz => { st with frozen := some { fz with rows := row :: fz.rows } }
    | none => st      -- unreachable (invariant `to_frozen`)
  else { st with memMut := row :: st.memMut }

def doApplyWrite (st : St) : St :=
  match st.inflight with
  | some fl =>
    if fl.written || !fl.acquired then st else
    addNames (putRow { st with inflight := some { fl with written := true } }
      fl.toFrozen fl.closed ⟨fl.seq, fl.metric, fl.tagv⟩) fl.metric fl.tagv
  | none => st

def doApplyCommit (st : St) : St :=
  match st.inflight with
  | some fl => if fl.written then { st with seq := some fl.seq, inflight := none } else st
  | none => st

/-- what `freeze` does to the in-flight write: mark it when its (taken) memdb is the one being frozen -/
def freezeMark (fl : InFlight) : InFlight :=
  if fl.taken && !fl.written && !fl.closed then { fl with toFrozen := true } else fl

/-- `memDB.Close` of the flushed memdb while the in-flight write still targets it -/
def closeMark (fl : InFlight) : InFlight :=
  if fl.toFrozen && !fl.written then { fl with closed := true } else fl

def doFreeze (st : St) : St :=
  match st.frozen with
  | none =>
    -- `mutableMemDB.NumOfSeries() == 0` (no row of any leader): nothing to flush
    if st.memMut.isEmpty && st.foreignMem == 0 then st else
    { st with frozen := some ⟨st.memMut, st.seq, false⟩, memMut := [], foreignMem := 0,
              inflight := st.inflight.map freezeMark }
  | some _ => st

/-- `FlushFamilyTo` first waits for writers of this memdb (`writeCondition.Wait`) -/
def writerPending (st : St) : Bool :=
  match st.inflight with
  | some fl => fl.toFrozen && fl.acquired && !fl.written && !fl.closed
  | none => false

/-- `storeFlusher.Commit` adds a `CreateSequence` record only for leaders present in the captured map;
otherwise the version keeps the previous sequence -/
def newStored (captured old : Option Int) : Option Int :=
  match captured with
  | some x => some x
  | none => old

def doDataCommit (st : St) : St :=
  match st.frozen with
  | some fz =>
    if fz.committed || writerPending st then st else
    { st with files := ⟨fz.rows, fz.captured⟩ :: st.files,
              stored := newStored fz.captured st.stored,
              frozen := some { fz with committed := true } }
  | none => st

def doAckCallback (st : St) : St :=
  match st.frozen with
  | some fz =>
    if fz.committed then
      { ackOpt st fz.captured with frozen := none, inflight := st.inflight.map closeMark }
    else st
  | none => st

def doLogGC (st : St) (k : Int) : St :=
  if st.gcLow ≤ k ∧ k ≤ st.groupAck + 1 then { st with gcLow := k } else st

/-- `partition.IsExpire` for a family past its write window: every consumer group `IsEmpty`
(`appended <= acknowledged`) -> stop, close, remove the log directory -/
def doWalExpire (st : St) : St :=
  if st.inflight.isNone ∧ st.appended ≤ st.groupAck then { st with walGone := true } else st

def doCrash (st : St) : St :=
  { st with phase := .down, seq := none, memMut := [], foreignMem := 0, frozen := none, inflight := none,
            metric := st.metric.crash, tagv := st.tagv.crash, index := st.index.crash }

/-- `newDataFamily`: `seq = persistSeq =` sequences of the recovered version;
`NewLocalReplicator`: `family.AckSequence(leader, fn)` runs `fn(persistSeq)` at once. -/
def doRecover (st : St) : St :=
  if st.walGone then { st with phase := .running, seq := st.stored }   -- no log directory: no partition, no replicator
  else ackOpt { st with phase := .opened, seq := st.stored } st.stored

/-- `lr.ResetReplicaIndex(lr.AckIndex() + 1)` = `SetConsumedSeq(ack)` -/
def doRewind (st : St) : St :=
  { st with phase := .running, consumed := st.groupAck }

/-- every event except crash / recover / rewind needs the running process -/
def whenRunning (st : St) (f : St) : St := if st.phase = .running then f else st

def step (cfg : Cfg) (st : St) (e : Ev) : St :=
  match e with
  | .crash => doCrash st
  | .recover => if st.phase = .down then doRecover st else st
  | .rewind => if st.phase = .opened then doRewind st else st
  | .append m t => whenRunning st (if st.walGone then st else doAppend st m t)
  | .foreignWrite m t => whenRunning st (addNames { st with foreignMem := st.foreignMem + 1 } m t)
  | .foreignNames m t => whenRunning st (addNames st m t)
  | .foreignMetric m => whenRunning st { st with metric := st.metric.create m }
  | .foreignTagv m t => whenRunning st { st with tagv := st.tagv.create (m, t) }
  | .appendBad => whenRunning st (if st.walGone then st else doAppendBad st)
  | .applyBegin => whenRunning st (if st.walGone then st else doApplyBegin cfg st)
  | .applyGetFail => whenRunning st (if st.walGone then st else doApplyGetFail cfg st)
  | .applyNoRows => whenRunning st (if st.walGone then st else doApplyNoRows st)
  | .applyTake => whenRunning st (doApplyTake cfg st)
  | .applyAcquire => whenRunning st (doApplyAcquire st)
  | .applyWrite => whenRunning st (doApplyWrite st)
  | .applyCommit => whenRunning st (doApplyCommit st)
  | .metaPrepare => whenRunning st { st with metric := st.metric.prepare cfg, tagv := st.tagv.prepare cfg }
  | .metaFlushMetric => whenRunning st { st with metric := st.metric.flush }
  | .metaFlushTagv => whenRunning st { st with tagv := st.tagv.flush }
  | .indexPrepare => whenRunning st { st with index := st.index.prepare cfg }
  | .indexFlush => whenRunning st { st with index := st.index.flush }
  | .freeze => whenRunning st (doFreeze st)
  | .dataCommit => whenRunning st (doDataCommit st)
  | .ackCallback => whenRunning st (doAckCallback st)
  | .logGC k => whenRunning st (doLogGC st k)
  | .walExpire => whenRunning st (doWalExpire st)

def run (cfg : Cfg) (st : St) (evs : List Ev) : St := evs.foldl (step cfg) st

/-! ### observations used by the driver and by the property statements -/

def fileRows (st : St) : List Row := st.files.flatMap (·.rows)

/-- a row of a durable file resolves through the DURABLE dictionaries -/
def rowResolves (st : St) (r : Row) : Bool :=
  st.metric.dur.contains r.metric && st.tagv.dur.contains (r.metric, r.tagv) &&
    st.index.dur.contains (r.metric, r.tagv)

/-- a durable index entry uses only durable names -/
def idxResolves (st : St) (p : Nat × Nat) : Bool :=
  st.metric.dur.contains p.1 && st.tagv.dur.contains p

/-- the event order of one `dataFlushChecker.doFlush` round for one shard with one family
(tied to the generated call order in Props/C07) -/
def flushRound : List Ev :=
  [.metaPrepare, .metaFlushMetric, .metaFlushTagv, .indexPrepare, .indexFlush,
   .freeze, .dataCommit, .ackCallback]

/-- the event order of one `localReplicator.Replica` -/
def applyRound : List Ev := [.applyBegin, .applyTake, .applyAcquire, .applyWrite, .applyCommit]

/-- `dataFamily.Close`: a pending immutable memory database (a failed earlier flush) is flushed and
acknowledged first, then the mutable one is switched, flushed and acknowledged -/
def closeEvs : List Ev := [.dataCommit, .ackCallback, .freeze, .dataCommit, .ackCallback]

/-- graceful shutdown, `engine.Close` -> `database.Close`: metadata flush, `shard.FlushIndex`, then
`shard.Close` (index flush once more, `segment.Close` -> `dataFamily.Close`) -/
def shutdownRound : List Ev :=
  [.metaPrepare, .metaFlushMetric, .metaFlushTagv, .indexPrepare, .indexFlush, .indexPrepare, .indexFlush] ++ closeEvs

/-- a flush round whose index flush FAILED right after the prepare (a table file could not be
created): `flushShard` returns, no family is flushed -/
def failedIndexRound : List Ev := [.metaPrepare, .metaFlushMetric, .metaFlushTagv, .indexPrepare]

/-! ### node level: one lane per leader

`dataFamily.seq` / `persistSeq` / the manifest's sequences are maps leader -> sequence, and every
leader whose writes reach this node (its own as leader, other nodes' as follower) has its own log
partition `<shard>/<family>/<leader>` with its own local replicator and consumer group. A node is a
list of lanes keyed by the leader id; each lane is the state `St` seen from that leader: its log, its
consumer group, its entry of the three sequence maps, the rows of ITS entries in the shared memory
databases / data files, a count of the other leaders' rows, and its own copy of the shared
dictionaries (kept identical by construction). -/

abbrev Node := List (Nat × St)

def Node.init (leaders : List Nat) : Node := leaders.map (fun l => (l, St.init))

def Node.lane? (n : Node) (l : Nat) : Option St := (n.find? (fun p => p.1 == l)).map (·.2)

inductive NEv
  /-- an event of leader `l`'s partition / replicator: append, appendBad, the steps of Replica, logGC, walExpire -/
  | lane (l : Nat) (e : Ev)
  /-- an event of the shared family / database / process: dictionary flush steps, freeze, dataCommit,
  ackCallback (the callbacks of all leaders), crash, recover, rewind -/
  | shared (e : Ev)
deriving Repr

/-- what the other lanes see of a lane event: a row written by leader `l` is a foreign row for them -/
def inducedEv (src : St) (e : Ev) : Option Ev :=
  match e, src.inflight with
  | .applyWrite, some fl =>
    if fl.acquired && !fl.written && !fl.closed && src.phase == .running
    then some (.foreignWrite fl.metric fl.tagv) else none
  | _, _ => none

def stepNode (cfg : Cfg) (n : Node) : NEv → Node
  | .shared e => n.map (fun p => (p.1, step cfg p.2 e))
  | .lane l e =>
    match n.lane? l with
    | none => n
    | some src =>
      n.map (fun p =>
        if p.1 = l then (p.1, step cfg p.2 e)
        else match inducedEv src e with
          | some f => (p.1, step cfg p.2 f)
          | none => p)

def runNode (cfg : Cfg) (n : Node) (nevs : List NEv) : Node := nevs.foldl (stepNode cfg) n

end LinVerif.NodeRecovery
