/-
Model of everything lindb does to a query ABOVE the leaf's per-series result (core Lean only):

* `aggregation/group_agg.go`, `series_agg.go` (merge variant), `field_agg.go`: the grouping
  aggregator with interval ratio 1 — used unchanged by the leaf reduce
  (`LeafReduceContext.Reduce`), the intermediate and the root (`MetricContext.handleResponse`);
* `query/context/metric_context.go`: `handleResponse`, `checkError`, `tryClose`
  (`expectResults`, `tolerantNotFounds`, the grouping aggregator built ONCE from the first
  non-empty response's field specs);
* `leaf_reduce_context.go BuildResultSet` / `intermediate_metric_context.go makeTaskResponse`:
  what an aggregator sends upstream, and the leaf -> intermediate split by hash of the group tags;
* `root_metric_context.go makeResultSet`: select evaluation (bare field / one function call),
  order-by (`topn.go`), limit (`order_by.go resultLimiter`).

Conventions. Group tags and field names are interned as natural numbers by the driver (the code
compares them only for equality; the final sort by tag values is done on the strings by the
driver). Values are integers (exact arithmetic; `+Inf` is never produced). A `FloatArray` of
capacity `cap` is a partial function on slots `< cap` (`SetValue` outside the capacity is ignored
by `checkPos`). A Go `map` whose iteration order the code depends on (group order for the
limiter / the heap) is an explicit list; nothing else observes it. xxhash is the parameter `h`.
-/
namespace LinVerif.RootMerge

/-! ### aggregate kinds, field types, functions (series/field/type.go) -/

/-- `field.AggType` (iota + 1) -/
inductive Kind where
  | sum | count | min | max | last | first
  deriving DecidableEq, Repr, Inhabited

namespace Kind

def code : Kind → Nat
  | sum => 1 | count => 2 | min => 3 | max => 4 | last => 5 | first => 6

def ofCode? : Nat → Option Kind
  | 1 => some sum | 2 => some count | 3 => some min | 4 => some max
  | 5 => some last | 6 => some first | _ => none

/-- `AggType.Aggregate(a, b)`: `a` is the accumulated value, `b` the incoming one. -/
def agg : Kind → Int → Int → Int
  | sum, a, b => a + b
  | count, a, b => a + b
  | min, a, b => Min.min a b
  | max, a, b => Max.max a b
  | last, _, b => b
  | first, a, _ => a

/-- all kinds in `AggType` order (what `uniqueAggTypes` sorts by) -/
def all : List Kind := [sum, count, min, max, last, first]

/-- the kinds whose `Aggregate` is commutative -/
def comm : Kind → Bool
  | last => false | first => false | _ => true

end Kind

/-- `field.Type.GetFuncFieldParams(funcType)`; field types 1 sum, 2 min, 3 max, 4 last,
5 histogram, 6 first; function types 1 sum, 2 min, 3 max, 4 count, 5 avg, 6 last, 7 first,
8 quantile, 9 stddev, 10 rate. -/
def funcKinds (ftype fn : Nat) : List Kind :=
  match ftype with
  | 1 => (match fn with | 3 => [.max] | 2 => [.min] | _ => [.sum])
  | 2 => (match fn with | 3 => [.max] | _ => [.min])
  | 3 => (match fn with | 2 => [.min] | _ => [.max])
  | 4 => (match fn with | 3 => [.max] | 2 => [.min] | 1 => [.sum] | _ => [.last])
  | 5 => [.sum]
  | 6 => (match fn with | 3 => [.max] | 2 => [.min] | 1 => [.sum] | _ => [.first])
  | _ => []

/-- `field.Type.GetDefaultFuncFieldParams()` -/
def defaultKinds : Nat → List Kind
  | 1 => [.sum] | 2 => [.min] | 3 => [.max] | 4 => [.last] | 5 => [.sum] | 6 => [.first] | _ => []

/-- `field.Type.GetOrderByFunc()` (function type code) -/
def orderByFunc : Nat → Nat
  | 1 => 1 | 2 => 2 | 3 => 3 | 4 => 6 | 6 => 7 | _ => 9

/-! ### what travels: `protoCommonV1.TimeSeriesList` -/

abbrev Tag := Nat
abbrev FName := Nat

/-- `protoCommonV1.AggregatorSpec` / `aggregation.AggregatorSpec` -/
structure Spec where
  name : FName
  ftype : Nat
  funcs : List Nat
  deriving DecidableEq, Repr

/-- `NewFieldAggregator`: `uniqueAggTypes` of the `GetFuncFieldParams` of every function of the
spec — sorted by `AggType`, without duplicates. -/
def Spec.kinds (sp : Spec) : List Kind :=
  Kind.all.filter (fun k => sp.funcs.any (fun fn => (funcKinds sp.ftype fn).contains k))

/-- one primitive series of a field (`writer.PutByte(aggType)` + TSD block): the kind it was
marshalled with and its points -/
structure Prim where
  kind : Nat
  pts : List (Nat × Int)
  deriving DecidableEq, Repr

/-- one field of one group (`series.MarshalIterator`): type byte + primitive series -/
structure FieldData where
  name : FName
  ftype : Nat
  prims : List Prim
  deriving DecidableEq, Repr

/-- `protoCommonV1.TimeSeries` -/
structure TS where
  tags : Tag
  fields : List FieldData
  deriving DecidableEq, Repr

/-- `protoCommonV1.TimeSeriesList`; `cap` = number of slots of `[Start, End]` at `Interval` -/
structure Payload where
  cap : Nat
  specs : List Spec
  series : List TS
  deriving DecidableEq, Repr

/-- a task response as `handleResponse` sees it -/
inductive Resp where
  | ok (p : Payload)
  | notFound          -- ErrMsg contains "not found"
  | error             -- any other ErrMsg
  | bad               -- payload that does not unmarshal
  deriving DecidableEq, Repr

/-- a data point of an incoming series: group, field, the kind byte of the primitive series it
came in, slot, value. -/
structure Atom where
  t : Tag
  f : FName
  kind : Nat
  s : Nat
  v : Int
  deriving DecidableEq, Repr

def FieldData.atoms (t : Tag) (fd : FieldData) : List Atom :=
  fd.prims.flatMap (fun p => p.pts.map (fun sv => { t := t, f := fd.name, kind := p.kind, s := sv.1, v := sv.2 }))

def TS.atoms (ts : TS) : List Atom :=
  ts.fields.flatMap (fun fd => fd.atoms ts.tags)

/-- which code is modelled. `mergeLaterSpecs = false`: the aggregator is built once, from the first
non-empty response (`if ctx.groupAgg == nil`), later specs are not looked at.
`crossFeed = true`: `fieldAggregator.Aggregate` ignores `pIt.AggType()` and feeds every incoming
primitive series into every kind of the aggregator; `crossFeed = false`: only into the kind the
primitive series carries (`fallbackCross`: into every kind when it carries none of them). The driver takes both from the regenerated
facts; `Variant.code` is lindb as it is. -/
structure Variant where
  mergeLaterSpecs : Bool
  crossFeed : Bool
  /-- only meaningful with `crossFeed = false`: a primitive series whose kind byte is NOT one of the
  aggregator's kinds is still fed into every kind (the fallback of fix commit eb2ea99) -/
  fallbackCross : Bool := false
  deriving DecidableEq, Repr

/-- lindb at the pinned commit -/
def Variant.code : Variant := ⟨false, true, false⟩
/-- both repairs of fixes/ -/
def Variant.repaired : Variant := ⟨true, false, false⟩
/-- /repo after fix commit eb2ea99 (merge by aggregate type, cross-feeding only as fallback) -/
def Variant.byType : Variant := ⟨false, false, true⟩

/-! ### the grouping aggregator -/

abbrev Cells := Tag → FName → Kind → Nat → Option Int

/-- `groupingAggregator` (+ the `FieldAggregates` / `fieldAggregator`s hanging off it) -/
structure Agg where
  specs : List Spec
  cap : Nat
  /-- `aggregates` map keys in creation order -/
  keys : List Tag
  /-- `fieldSeriesList[kind]` of `aggregates[tags][field]` -/
  cells : Cells
  /-- `ga.fields`: every field name that ever came in (with or without an aggregator) -/
  seen : List FName
  /-- `aggregates[tags][field].aggregates[0] != nil`: the merge series aggregator of the field has
  received at least one segment (with or without points) -/
  touched : Tag → FName → Bool

/-- `NewGroupingAggregator` -/
def Agg.new (specs : List Spec) (cap : Nat) : Agg :=
  { specs := specs, cap := cap, keys := [], cells := fun _ _ _ _ => none, seen := [],
    touched := fun _ _ => false }

/-- the series aggregator found by the name loop in `groupingAggregator.Aggregate`
(first spec with that field name), as its kinds; `none` = `sAgg == nil` -/
def kindsOf (specs : List Spec) (f : FName) : Option (List Kind) :=
  (specs.find? (fun sp => sp.name == f)).map Spec.kinds

def insertNew (l : List Nat) (x : Nat) : List Nat := if l.contains x then l else l ++ [x]

/-- `fieldAggregator.Aggregate` -> `AggregateBySlot(slot, value)`: with `crossFeed` the value goes
into EVERY kind of the field's aggregator, otherwise into the kind the primitive series carries;
a field without aggregator is skipped (`if sAgg == nil { continue }`); a slot outside the array
is ignored (`FloatArray.checkPos`). -/
def addAtom (v : Variant) (specs : List Spec) (cap : Nat) (c : Cells) (a : Atom) : Cells :=
  match kindsOf specs a.f with
  | none => c
  | some ks =>
    if a.s < cap then
      fun t f k s =>
        if t = a.t ∧ f = a.f ∧ s = a.s ∧ ks.contains k ∧
            (v.crossFeed ∨ k.code = a.kind ∨ (v.fallbackCross ∧ ks.all (fun k' => k'.code != a.kind))) then
          (match c t f k s with
           | none => some a.v
           | some x => some (k.agg x a.v))
        else c t f k s
    else c

/-- `groupingAggregator.Aggregate(it)` for one incoming group -/
def Agg.aggregateTS (v : Variant) (a : Agg) (ts : TS) : Agg :=
  { a with
    keys := insertNew a.keys ts.tags,
    seen := ts.fields.foldl (fun s fd => insertNew s fd.name) a.seen,
    cells := ts.atoms.foldl (addAtom v a.specs a.cap) a.cells,
    touched := fun t f => a.touched t f ||
      (t == ts.tags && (kindsOf a.specs f).isSome &&
        ts.fields.any (fun fd => fd.name == f && !fd.prims.isEmpty)) }

/-- the loop over `tsList.TimeSeriesList` in `handleResponse`
(`if len(ts.Fields) == 0 { continue }`) -/
def Agg.aggregateAll (v : Variant) (a : Agg) (tss : List TS) : Agg :=
  tss.foldl (fun a ts => if ts.fields.isEmpty then a else a.aggregateTS v ts) a

/-- repaired variant only: aggregator specs of later responses are added for fields the
aggregator does not know yet (existing groups get the new, empty, series aggregator) -/
def addSpec (acc : List Spec) (sp : Spec) : List Spec :=
  if acc.any (fun x => x.name == sp.name) then acc else acc ++ [sp]

def Agg.addSpecs (a : Agg) (more : List Spec) : Agg :=
  { a with specs := more.foldl addSpec a.specs }

def Agg.points (a : Agg) (t : Tag) (f : FName) (k : Kind) (cap : Nat) : List (Nat × Int) :=
  (List.range cap).filterMap (fun s => (a.cells t f k s).map (fun v => (s, v)))

/-- what one group looks like on the wire (`makeTimeSeriesList` / `makeTaskResponse`): every
spec'd field, with one primitive series per kind once the field has received a segment -/
def Agg.emitTS (a : Agg) (t : Tag) : TS :=
  { tags := t,
    fields := a.specs.map (fun sp =>
      { name := sp.name, ftype := sp.ftype,
        prims := if a.touched t sp.name then
                   sp.kinds.map (fun k => { kind := k.code, pts := a.points t sp.name k a.cap })
                 else [] }) }

/-- all groups (`len(fields) > 0` holds as soon as there is one spec: a field without data is
still marshalled as its type byte) -/
def Agg.emit (a : Agg) : List TS :=
  if a.specs.isEmpty then [] else a.keys.map a.emitTS

/-! ### the task context (root and intermediate share `MetricContext`) -/

inductive ErrKind where
  | notFound | other
  deriving DecidableEq, Repr

/-- `MetricContext` + `baseTaskContext` -/
structure Ctx where
  expect : Int
  tolerant : Int
  err : Option ErrKind
  done : Bool
  agg : Option Agg
  /-- `ctx.timeRange` / `ctx.interval` (as a slot count): overwritten by every non-empty response -/
  hdrCap : Nat
  /-- `ctx.aggregatorSpecs`: field name -> last spec seen -/
  allSpecs : List Spec

/-- `addRequests` for a plan with `n` targets -/
def Ctx.new (n : Nat) : Ctx :=
  { expect := n, tolerant := n, err := none, done := false, agg := none, hdrCap := 0, allSpecs := [] }

/-- `ctx.aggregatorSpecs[spec.FieldName] = spec` -/
def putSpec (m : List Spec) (sp : Spec) : List Spec :=
  if m.any (fun x => x.name == sp.name) then m.map (fun x => if x.name == sp.name then sp else x)
  else m ++ [sp]

/-- body of `handleResponse` after `expectResults--` -/
def Ctx.absorb (v : Variant) (c : Ctx) : Resp → Ctx
  | .notFound =>
    -- checkError: tolerantNotFounds--; tolerated while > 0, otherwise the error is returned
    let t := c.tolerant - 1
    if t > 0 then { c with tolerant := t } else { c with tolerant := t, err := some .notFound }
  | .error => { c with err := some .other }
  | .bad => { c with err := some .other }
  | .ok p =>
    if p.specs.isEmpty then c
    else
      let a0 : Agg := match c.agg with
        | none => Agg.new p.specs p.cap
        | some a => if v.mergeLaterSpecs then a.addSpecs p.specs else a
      { c with hdrCap := p.cap,
               allSpecs := p.specs.foldl putSpec c.allSpecs,
               agg := some (a0.aggregateAll v p.series) }

/-- `HandleResponse` = `handleResponse` + `tryClose` -/
def Ctx.handle (v : Variant) (c : Ctx) (r : Resp) : Ctx :=
  let c1 := Ctx.absorb v { c with expect := c.expect - 1 } r
  { c1 with done := c1.done || decide (c1.expect ≤ 0) || c1.err.isSome }

/-- `baseTaskContext.Complete(err)`: called by the search pipeline's completion callback once the
plan is made and every request is sent (`err = nil`), or with the planning/sending error; then
`tryClose`. `keep = false` is the pinned code: `ctx.err = err` unconditionally (a recorded error
is replaced by nil). `keep = true` is the repair `if err != nil || ctx.err == nil { ctx.err = err }`:
nil never replaces a recorded error. The driver takes `keep` from the regenerated facts. -/
def Ctx.complete (keep : Bool) (c : Ctx) (e : Option ErrKind) : Ctx :=
  let c1 := { c with err := if keep && e.isNone then c.err else e }
  { c1 with done := c1.done || decide (c1.expect ≤ 0) || c1.err.isSome }

/-- what can happen to a task context, in the order it happens: a response is handled, or the
plan-completion callback runs -/
inductive Event where
  | resp (r : Resp)
  | planDone (e : Option ErrKind)

def Ctx.step (keep : Bool) (v : Variant) (c : Ctx) : Event → Ctx
  | .resp r => c.handle v r
  | .planDone e => c.complete keep e

def Ctx.run (keep : Bool) (v : Variant) (c : Ctx) (evs : List Event) : Ctx := evs.foldl (Ctx.step keep v) c

def Ctx.handleAll (v : Variant) (c : Ctx) (rs : List Resp) : Ctx := rs.foldl (Ctx.handle v) c

/-- `IntermediateMetricContext.makeTaskResponse` (specs in map order: here insertion order) -/
def Ctx.taskResponse (c : Ctx) : Resp :=
  match c.err with
  | some .notFound => .notFound
  | some .other => .error
  | none => .ok { cap := c.hdrCap, specs := c.allSpecs,
                  series := match c.agg with | none => [] | some a => a.emit }

/-! ### the leaf side above the per-series result -/

/-- a select item: `fn = 0` bare field, otherwise `fn(field)` -/
structure SelItem where
  fn : Nat
  field : FName
  deriving DecidableEq, Repr


/-- `LeafReduceContext.Reduce` over the down-sampled grouped iterators of all shards of the node,
then `BuildResultSet` for ONE receiver. `its` are the grouped iterators in reduce order. -/
def leafPayload (v : Variant) (specs : List Spec) (cap : Nat) (its : List TS) : Payload :=
  { cap := cap, specs := specs,
    series := if its.isEmpty then [] else ((Agg.new specs cap).aggregateAll v its).emit }

/-- `field.Type.DownSamplingFunc()` (function type code; 0 = Unknown) -/
def downSamplingFunc : Nat → Nat
  | 1 => 1 | 2 => 2 | 3 => 3 | 4 => 6 | 5 => 1 | 6 => 7 | _ => 0

/-- `field.Type.IsFuncSupported(funcType)` -/
def funcSupported (ftype fn : Nat) : Bool :=
  match ftype with
  | 1 => fn == 1 || fn == 2 || fn == 3 || fn == 10
  | 2 => fn == 2
  | 3 => fn == 3
  | 4 => fn == 1 || fn == 2 || fn == 3 || fn == 6
  | 5 => fn == 1
  | 6 => fn == 1 || fn == 2 || fn == 3 || fn == 7
  | _ => false

/-- `metadataLookup.planField`: the function type a select item adds to its field's aggregator
spec; `none` = "cannot get default down sampling func" / "field type not support function"
(errors that are NOT not-found errors) -/
def planFunc (ftype fn : Nat) : Option Nat :=
  if fn = 0 then (if downSamplingFunc ftype = 0 then none else some (downSamplingFunc ftype))
  else if funcSupported ftype fn then some fn else none

/-- `metadataLookup.Execute` on a leaf, as far as the kind of answer and the aggregator specs go.
`schema` is the NODE-LOCAL schema of the metric: `none` = this node never saw the metric
(`GetMetricID` fails with "metric not found"), otherwise its fields `(name, type)` in field-id
order. `sel = none` is `select *`. A selected field the node never saw fails the whole leaf with
"field not found". Specs come out in field-id order (`SortFields`). -/
def leafPlan (schema : Option (List (FName × Nat))) (sel : Option (List SelItem)) :
    Except ErrKind (List Spec) :=
  match schema with
  | none => .error .notFound
  | some fields =>
    if fields.isEmpty then .error .notFound
    else
      let items : List SelItem := match sel with
        | none => fields.map (fun f => { fn := 0, field := f.1 })
        | some l => l
      if items.isEmpty then .error .other   -- ErrEmptySelectList
      else
        -- first item (in select order) that fails decides the error
        -- (with `select *` planField's error is dropped by selectList: no item can fail)
        let bad := if sel.isNone then none else items.findSome? (fun it =>
          match fields.find? (fun f => f.1 == it.field) with
          | none => some ErrKind.notFound
          | some f => if (planFunc f.2 it.fn).isNone then some ErrKind.other else none)
        match bad with
        | some e => .error e
        | none =>
          .ok (fields.filterMap (fun f =>
            let fns := (items.filter (fun it => it.field == f.1)).filterMap (fun it => planFunc f.2 it.fn)
            if fns.isEmpty && sel.isSome then none
            else some { name := f.1, ftype := f.2, funcs := fns.eraseDups }))

/-- the leaf's answer to a single receiver: plan, then reduce + `BuildResultSet`, or the error -/
def leafAnswer (v : Variant) (schema : Option (List (FName × Nat))) (sel : Option (List SelItem))
    (cap : Nat) (its : List TS) : Resp :=
  match leafPlan schema sel with
  | .error .notFound => .notFound
  | .error .other => .error
  | .ok specs => .ok (leafPayload v specs cap its)

/-- `BuildResultSet` with `r > 1` receivers: series go to receiver `h(tags) % r` -/
def splitByHash (h : Tag → Nat) (r : Nat) (p : Payload) : List Payload :=
  (List.range r).map (fun i => { p with series := p.series.filter (fun ts => h ts.tags % r == i) })

/-! ### root: select evaluation, order by, limit -/

/-- `expression.eval` for `FieldExpr` / `CallExpr{Sum,Min,Max,Count,Last,First}`: the field must
have an aggregator (it is in `fieldStore`), `dynamicField.getFieldValues` keeps the wanted
kinds that arrived, the result is the first of them; `pc` is the expression's point count. -/
def Agg.evalItem (a : Agg) (pc : Nat) (t : Tag) (it : SelItem) : Option (List (Nat × Int)) :=
  match a.specs.find? (fun sp => sp.name == it.field) with
  | none => none
  | some sp =>
    let wanted := if it.fn = 0 then defaultKinds sp.ftype else funcKinds sp.ftype it.fn
    if a.touched t sp.name then
      match wanted.filter (fun k => sp.kinds.contains k) with
      | [] => none
      | k :: _ => some ((a.points t sp.name k a.cap).filter (fun sv => sv.1 < pc))
    else none

/-- one result row: group + per select item its points (`none`: no entry in the result map) -/
structure Row where
  tags : Tag
  vals : List (Option (List (Nat × Int)))
  deriving DecidableEq, Repr

def Agg.row (a : Agg) (pc : Nat) (items : List SelItem) (t : Tag) : Row :=
  { tags := t, vals := items.map (a.evalItem pc t) }

/-- an order-by item resolved by the driver: function type (already `GetOrderByFunc` for a bare
field), descending flag, index of the select item whose result name equals the order-by field
name (`none`: `GetValue` answers 0) -/
structure OrdItem where
  fn : Nat
  desc : Bool
  sel : Option Nat
  deriving DecidableEq, Repr

/-- `OrderByRow.aggregate` + `GetValue` for sum/min/max/count/last/first over integer points -/
def ordValue (fn : Nat) (pts : List (Nat × Int)) : Int :=
  match pts.map Prod.snd with
  | [] => 0
  | v :: vs =>
    match fn with
    | 1 => vs.foldl (· + ·) v
    | 2 => vs.foldl Min.min v
    | 3 => vs.foldl Max.max v
    | 4 => (vs.length + 1 : Nat)
    | 6 => (v :: vs).getLast?.getD v
    | 7 => v
    | _ => 0

def Row.ordKey (r : Row) (o : OrdItem) : Int :=
  match o.sel with
  | none => 0
  | some i =>
    match r.vals[i]? with
    | some (some pts) => ordValue o.fn pts
    | _ => 0

/-- `topNHeap.Less(i, j)`: first order-by item on which the rows differ decides -/
def rowLess : List OrdItem → Row → Row → Bool
  | [], _, _ => false
  | o :: os, a, b =>
    let d := a.ordKey o - b.ordKey o
    let d := if o.desc then -d else d
    if d > 0 then true else if d < 0 then false else rowLess os a b

/-- the heap's root: an element no other kept element is `Less` than (container/heap keeps such
an element at index 0; with ties which one is unspecified — the model takes the first) -/
def heapRoot (less : Row → Row → Bool) (kept : List Row) : Option Row :=
  match kept.find? (fun w => kept.all (fun e => !less e w)) with
  | some w => some w
  | none => kept.head?

def replaceFirst (l : List Row) (w r : Row) : List Row :=
  match l with
  | [] => []
  | x :: xs => if x = w then r :: xs else x :: replaceFirst xs w r

/-- `topNHeap.Add` -/
def topNAdd (less : Row → Row → Bool) (limit : Nat) (kept : List Row) (r : Row) : List Row :=
  if kept.length ≥ limit then
    match heapRoot less kept with
    | none => kept
    | some w => if less w r then replaceFirst kept w r else kept
  else kept ++ [r]

def topN (less : Row → Row → Bool) (limit : Nat) (rows : List Row) : List Row :=
  rows.foldl (topNAdd less limit) []

/-- `resultLimiter.Push` -/
def limiter (limit : Nat) (rows : List Row) : List Row := rows.take limit

/-- `makeResultSet` up to the final sort by tag values (done by the driver on the strings):
`order` is the iteration order of the aggregator's group map. -/
def Agg.resultRows (a : Agg) (pc : Nat) (items : List SelItem) (ords : List OrdItem) (limit : Nat)
    (order : List Tag) : List Row :=
  let rows := order.map (a.row pc items)
  if ords.isEmpty then limiter limit rows else topN (rowLess ords) limit rows

/-- outcome of `RootMetricContext.WaitResponse` once the context is done -/
inductive Outcome where
  | pending
  | failed (e : ErrKind)
  | rows (rs : List Row)
  deriving DecidableEq, Repr

def Ctx.outcome (c : Ctx) (items : List SelItem) (ords : List OrdItem) (limit : Nat)
    (order : List Tag) : Outcome :=
  if !c.done then .pending
  else match c.err with
    | some e => .failed e
    | none =>
      match c.agg with
      | none => .rows []
      | some a => .rows (a.resultRows c.hdrCap items ords limit order)

/-! ### HAVING (root_metric_context.go makeResultSet) -/

/-- `having <the selected field> <op> <threshold>`; op 1 `>`, 2 `>=`, 3 `<`, 4 `<=`
(`sql.Calc` over the slot's field values; modelled for select lists of ONE item, where the
predicate of a slot only reads that item's value) -/
structure Having where
  op : Nat
  thr : Int
  deriving DecidableEq, Repr

def Having.holds (h : Having) (v : Int) : Bool :=
  match h.op with
  | 1 => decide (v > h.thr) | 2 => decide (v ≥ h.thr) | 3 => decide (v < h.thr) | 4 => decide (v ≤ h.thr)
  | _ => false

/-- the per-series block of `makeResultSet`: `notHavingSlots` is built from THIS series' slot
values and only this series' points are filtered by it -/
def Row.having (h : Having) (r : Row) : Row :=
  { r with vals := r.vals.map (fun o => o.map (fun pts => pts.filter (fun sv => h.holds sv.2))) }

def havingRows (h : Option Having) (rows : List Row) : List Row :=
  match h with
  | none => rows
  | some h => rows.map (Row.having h)

/-- the variant with the scratch set hoisted out of the loop over the series (seeded change
c12-14): a slot rejected for one series stays rejected for every series rendered after it -/
def havingRowsLeaky (h : Having) : List Nat → List Row → List Row
  | _, [] => []
  | bad, r :: rs =>
    let rejected := r.vals.flatMap (fun o => match o with
      | some pts => (pts.filter (fun sv => !h.holds sv.2)).map Prod.fst
      | none => [])
    let bad' := bad ++ rejected
    { r with vals := r.vals.map (fun o => o.map (fun pts => pts.filter (fun sv => !bad'.contains sv.1))) }
      :: havingRowsLeaky h bad' rs

def Ctx.outcomeH (c : Ctx) (items : List SelItem) (ords : List OrdItem) (limit : Nat)
    (having : Option Having) (order : List Tag) : Outcome :=
  match c.outcome items ords limit order with
  | .rows rs => .rows (havingRows having rs)
  | o => o

/-! ### the physical plan over the live compute nodes (flow/node_choose.go) -/

/-- `BuildPhysicalPlan(database, liveNodes, numOfNodes)`: the live nodes are shuffled (`perm` = the
shuffle as a list of indexes into `live`), the first `n` become targets, the FIRST TARGET OF THE
PLAN executes the task, all others only receive. Result: `(node, receiveOnly)`. -/
def buildPlan (live : List Nat) (n : Nat) (perm : List Nat) : List (Nat × Bool) :=
  ((perm.filterMap (fun i => live[i]?)).take n).zipIdx.map (fun p => (p.1, p.2 != 0))

/-- the variant that tests the index into the live-node list instead of the position in the plan
(seeded change c12-13) -/
def buildPlanByLiveIndex (live : List Nat) (n : Nat) (perm : List Nat) : List (Nat × Bool) :=
  ((perm.filterMap (fun i => (live[i]?).map (fun x => (x, i != 0)))).take n)

def executors (plan : List (Nat × Bool)) : List Nat := (plan.filter (fun p => !p.2)).map Prod.fst

/-! ### routing of written rows to shards (series/metric/row_broker.go) -/

/-- `BrokerBatchRows.NewShardGroupIterator(n)` + the `HasRowsForNextShard` loop: every row gets
`shardIdx = jump(KvsHash, n)` (the jump consistent hash is the parameter `jump`), rows are sorted
by shard index and handed out as one group per shard index, ascending. Rows are `(id, hash)`. -/
def routeGroups (jump : Nat → Nat) (n : Nat) (rows : List (Nat × Nat)) : List (Nat × List Nat) :=
  (List.range n).filterMap (fun s =>
    let ids := rows.filterMap (fun r => if jump r.2 = s then some r.1 else none)
    if ids.isEmpty then none else some (s, ids))

end LinVerif.RootMerge
