/-
The msync (MappedPage.Sync) windows of the fan-out layer (core Lean only).

(1) consumerGroup.Ack: `acknowledgedSeq.Store(n)`, two `PutUint64`, then `metaPage.Sync()` — all under
    `lock4headSeq.RLock`. While the msync runs the new position is ALREADY visible to
    `fanOutQueue.Sync` (it reads `fo.AcknowledgedSeq()` without a group lock) and through it to GC.
    `AOp` interleaves one Ack, cut at that point, with the other goroutines' operations; `ackEnd failed`
    is the return of the msync. The pinned source only logs a failure (`ackRollsBack = false`); the
    shape `ackRollsBack = true` (seeded change c06-17) stores the previous position back.

(2) queue.SetAcknowledgedSeq: guard, `acknowledgedSeq.Store`, `PutUint64`, msync — under the queue's
    `rwMutex.Lock` (`setAckLocked = true`, the pinned source). `QOp` interleaves any number of callers
    (Sync from several goroutines) with `SetAppendedSeq` and `Put`, which take the same lock. The
    shape `setAckLocked = false` (seeded change c06-3) has no lock and publishes the position after
    the msync.

Which shape the CURRENT source has is computed from regenerated facts (`shapeOf…`, tied in
Props/C06.lean `msync_shape_tie`).
-/
import LinVerif.Model.FanOut

namespace LinVerif.FanOut.Msync
open LinVerif.FanOut LinVerif.Map

structure Shape where
  /-- Ack stores the previous acknowledged position back when its msync fails -/
  ackRollsBack : Bool
  /-- SetAcknowledgedSeq runs under the queue's write lock and stores before it persists -/
  setAckLocked : Bool
  deriving DecidableEq, Repr

def Shape.pinned : Shape := { ackRollsBack := false, setAckLocked := true }

/-- From the regenerated access table of `Ack` (`R|W|C`, field, lock): a store to `acknowledgedSeq`
after the msync call is a roll-back. -/
def rollsBack : List (String × String × String) → Bool
  | [] => false
  | (k, f, _) :: rest =>
    if k = "C" ∧ f = "msync" then rest.any (fun a => a.1 = "W" ∧ a.2.1 = "acknowledgedSeq") else rollsBack rest

/-- From the regenerated access table of `queue.SetAcknowledgedSeq`: every access under
`rwMutex.Lock`, and the store of the position precedes the meta write and the msync. -/
def setAckIsLocked (acc : List (String × String × String)) : Bool :=
  acc.all (fun a => a.2.2 = "rwMutex.Lock") &&
  (acc.map (fun a => (a.1, a.2.1))) ==
    [("R", "acknowledgedSeq"), ("R", "appendedSeq"), ("W", "acknowledgedSeq"), ("W", "metaPage"), ("C", "msync")]

def shapeOf (ackAcc setAckAcc : List (String × String × String)) : Shape :=
  { ackRollsBack := rollsBack ackAcc, setAckLocked := setAckIsLocked setAckAcc }

/-! ### (1) Ack with its msync in flight -/

structure AState where
  s : State
  /-- the Ack sitting in its msync: group and the acknowledged position it replaced (`ts`) -/
  inflight : Option (Nat × Int)
  deriving DecidableEq, Repr

inductive AOp
  | op (o : Op)                      -- any operation of another goroutine
  | ackBegin (g : Nat) (n : Int)     -- RLock; window test; Store; two PutUint64; msync entered
  | ackEnd (failed : Bool)           -- msync returned; RUnlock
  deriving DecidableEq, Repr

/-- operations that need `lock4headSeq.Lock` of group `g` (held shared by the Ack in flight), or that
close the group: not enabled while the Ack is in flight. A second Ack on the same group is outside
the property's quantifier. -/
def blockedBy (g : Nat) : Op → Bool
  | .consume k => k == g
  | .setConsumed k _ => k == g
  | .setSeq k _ => k == g
  | .ack k _ => k == g
  | .stop k => k == g
  | .setAppended _ => true
  | .reopen => true
  | _ => false

/-- the roll-back of the shape `ackRollsBack`: the in-memory position only (the mapped page keeps the
new one, as the seeded comment says) -/
def State.rollback (s : State) (g : Nat) (ts : Int) : State :=
  match lookup s.live g with
  | some grp => { s with live := upsert s.live g { grp with ack := ts } }
  | none => s

def astep (sp : Shape) (v : Variant) (a : AState) : AOp → Option AState
  | .op o =>
    match a.inflight with
    | some (g, _) => if blockedBy g o then none else some { a with s := (step v a.s o).1 }
    | none => some { a with s := (step v a.s o).1 }
  | .ackBegin g n =>
    match a.inflight, lookup a.s.live g with
    | none, some grp =>
      if n ≥ grp.ack ∧ n ≤ grp.consumed then some { s := (a.s.ackGroup g n).1, inflight := some (g, grp.ack) }
      else some a                                   -- ignored: no store, no msync
    | _, _ => none
  | .ackEnd failed =>
    match a.inflight with
    | some (g, ts) =>
      some { s := if sp.ackRollsBack && failed then State.rollback a.s g ts else a.s, inflight := none }
    | none => none

def arun (sp : Shape) (v : Variant) : AState → List AOp → Option AState
  | a, [] => some a
  | a, o :: os =>
    match astep sp v a o with
    | none => none
    | some a' => arun sp v a' os

/-- `ackfault` of the line protocol: an Ack whose msync fails, nobody else around -/
def State.ackFault (sp : Shape) (v : Variant) (s : State) (g : Nat) (n : Int) : State :=
  match arun sp v { s := s, inflight := none } [.ackBegin g n, .ackEnd true] with
  | some a => a.s
  | none => (s.ackGroup g n).1          -- no such group / ignored ack: nothing in flight to end

/-- `acksync` of the line protocol: Sync and GC while the Ack sits in its msync -/
def State.ackSync (sp : Shape) (v : Variant) (s : State) (g : Nat) (n : Int) (failed : Bool) : State :=
  match arun sp v { s := s, inflight := none } [.ackBegin g n, .op .sync, .op .gc, .ackEnd failed] with
  | some a => a.s
  | none => (step v (step v (s.ackGroup g n).1 .sync).1 .gc).1

/-! ### (2) queue.SetAcknowledgedSeq with its msync in flight -/

/-- positions of the queue: in memory and in the meta page -/
structure QSh where
  appended : Int
  qack : Int
  mAck : Int
  deriving DecidableEq, Repr

inductive QPc
  | idle
  | stored (seq : Int)     -- locked shape: guard passed, position stored; lock held
  | checked (seq : Int)    -- unlocked shape: guard passed, nothing stored yet
  | synced (seq : Int)     -- unlocked shape: meta page written and msynced, not yet published
  deriving DecidableEq, Repr

structure QState where
  sh : QSh
  pc : Nat → QPc           -- one program counter per caller of SetAcknowledgedSeq
  lock : Option Nat        -- owner of rwMutex.Lock among the callers

inductive QOp
  | enter (i : Nat) (seq : Int)   -- (Lock;) guard (; Store)
  | persist (i : Nat)             -- PutUint64; msync (; Unlock)
  | publish (i : Nat)             -- unlocked shape only: Store after the msync
  | reset (n : Int)               -- queue.SetAppendedSeq (Lock … Unlock: one step)
  | put                           -- queue.Put (Lock … Unlock: one step for the positions)
  deriving DecidableEq, Repr

def QState.setPc (q : QState) (i : Nat) (p : QPc) : QState := { q with pc := fun k => if k = i then p else q.pc k }

def qstep (sp : Shape) (q : QState) : QOp → Option QState
  | .enter i seq =>
    match q.pc i with
    | .idle =>
      if sp.setAckLocked then
        if q.lock.isSome then none
        else if seq > q.sh.qack ∧ seq ≤ q.sh.appended then
          some { (q.setPc i (.stored seq)) with sh := { q.sh with qack := seq }, lock := some i }
        else some q
      else if seq > q.sh.qack ∧ seq ≤ q.sh.appended then some (q.setPc i (.checked seq)) else some q
    | _ => none
  | .persist i =>
    match q.pc i with
    | .stored seq => some { (q.setPc i .idle) with sh := { q.sh with mAck := seq }, lock := none }
    | .checked seq => some { (q.setPc i (.synced seq)) with sh := { q.sh with mAck := seq } }
    | _ => none
  | .publish i =>
    match q.pc i with
    | .synced seq => some { (q.setPc i .idle) with sh := { q.sh with qack := seq } }
    | _ => none
  | .reset n =>
    if q.lock.isSome then none else some { q with sh := { appended := n, qack := n, mAck := n } }
  | .put =>
    if q.lock.isSome then none else some { q with sh := { q.sh with appended := q.sh.appended + 1 } }

def qrun (sp : Shape) : QState → List QOp → Option QState
  | q, [] => some q
  | q, o :: os =>
    match qstep sp q o with
    | none => none
    | some q' => qrun sp q' os

def QState.start (app ack : Int) : QState :=
  { sh := { appended := app, qack := ack, mAck := ack }, pc := fun _ => .idle, lock := none }

end LinVerif.FanOut.Msync
