/-
C01 — model of the kv store's file-system behaviour (core Lean only).

Abstract disk: OPTIONS (family list), LOCK, CURRENT / CURRENT.tmp (a manifest number), the
MANIFEST-n files (lists of synced records), one directory per family holding table files
(`complete | partial`, with their key/value content).

Every store operation returns the new in-memory state AND the list of file-system operations it
performs, IN CODE ORDER. A crash image is the disk after a prefix of that list.

  openStore     kv/store.go newStore (+ version_set.go Recover / recover / initJournal / setCurrent,
                deferred deleteObsoleteFiles / deleteFamilyObsoleteFiles)
  createFamily  store.CreateFamily / family.go newFamily
  flushStart    family.NewFlusher + first storeFlusher.Add (family.newTableBuilder)
  flushCommit   flusher.go storeFlusher.Commit → family.commitEditLog → CommitFamilyEditLog
  compact       family.backgroundCompactionJob → compact_job.go Run (moveCompaction | mergeCompaction)
  editCommit    family.commitEditLog with rollup-bookkeeping logs (family_rollup.go)
  closeStore    store.close

Table files are abstract (C15 owns the format): content = key/value list, values are numbers and the
merger used by the correspondence harness adds the values of equal keys.
-/
import LinVerif.Model.Manifest

namespace LinVerif.Kv
open LinVerif

/-! ## Disk and file-system operations -/

/-- one entry of OPTIONS' `families` table (name, id, compactThreshold). -/
structure FamOpt where
  name : Nat
  id : Int
  threshold : Int
  deriving DecidableEq, Repr

structure Table where
  complete : Bool
  content : List (Nat × Nat)
  deriving DecidableEq, Repr

structure Disk where
  dir : Bool                                   -- store directory exists
  options : Option (List FamOpt)               -- OPTIONS
  lock : Bool                                  -- LOCK file exists
  current : Option Int                         -- CURRENT names MANIFEST-n
  currentTmp : Option Int                      -- CURRENT.tmp
  manifests : List (Int × Manifest)
  famDirs : List (Nat × List (Int × Table))    -- family directory → table files by number
  deriving DecidableEq, Repr

def Disk.empty : Disk := ⟨false, none, false, none, none, [], []⟩

inductive FsOp
  | mkdirStore
  | writeOptions (o : List FamOpt)             -- ltoml.EncodeToml: write OPTIONS.tmp + rename (one atomic replace)
  | lockCreate
  | lockRemove
  | mkdirFam (name : Nat)
  | createManifest (n : Int)                   -- os.Create: create or truncate
  | appendRec (n : Int) (rec : Bytes)          -- BufioWriter.Write + Sync: one write, fsync
  | writeCurrentTmp (n : Int)                  -- os.WriteFile(CURRENT.tmp)
  | renameCurrent                              -- os.Rename(CURRENT.tmp, CURRENT)
  | removeManifest (n : Int)
  | createTable (fam : Nat) (f : Int)          -- os.Create of the table file (empty: partial)
  | closeTable (fam : Nat) (f : Int) (content : List (Nat × Nat))   -- data + footer flushed, file closed
  | removeTable (fam : Nat) (f : Int)
  deriving DecidableEq, Repr

def Disk.tables (d : Disk) (fam : Nat) : List (Int × Table) := (Map.lookup d.famDirs fam).getD []

def Disk.table (d : Disk) (fam : Nat) (f : Int) : Option Table := Map.lookup (d.tables fam) f

def applyFs (d : Disk) : FsOp → Disk
  | .mkdirStore => { d with dir := true }
  | .writeOptions o => { d with options := some o }
  | .lockCreate => { d with lock := true }
  | .lockRemove => { d with lock := false }
  | .mkdirFam name => if (Map.lookup d.famDirs name).isSome then d else { d with famDirs := Map.upsert d.famDirs name [] }
  | .createManifest n => { d with manifests := Map.upsert d.manifests n ⟨[], false⟩ }
  | .appendRec n r =>
    match Map.lookup d.manifests n with
    | some m => { d with manifests := Map.upsert d.manifests n { m with recs := m.recs ++ [r] } }
    | none => d
  | .writeCurrentTmp n => { d with currentTmp := some n }
  | .renameCurrent =>
    match d.currentTmp with
    | some n => { d with current := some n, currentTmp := none }
    | none => d
  | .removeManifest n => { d with manifests := Map.erase d.manifests n }
  | .createTable fam f => { d with famDirs := Map.upsert d.famDirs fam (Map.upsert (d.tables fam) f ⟨false, []⟩) }
  | .closeTable fam f c => { d with famDirs := Map.upsert d.famDirs fam (Map.upsert (d.tables fam) f ⟨true, c⟩) }
  | .removeTable fam f => { d with famDirs := Map.upsert d.famDirs fam (Map.erase (d.tables fam) f) }

def applyFsList (d : Disk) (ops : List FsOp) : Disk := ops.foldl applyFs d

/-! ## In-memory state -/

/-- StoreOption: Levels, Rollup (target intervals). Passed to every CreateStore call. -/
structure Cfg where
  levels : Nat
  rollup : List Int
  deriving DecidableEq, Repr

/-- a storeFlusher: its table builder (file number, accepted key/values) and the sequences set. -/
structure Flusher where
  builder : Option (Int × List (Nat × Nat))
  seqs : List (Int × Int)
  deriving DecidableEq, Repr

structure Fam where
  opt : FamOpt
  pending : List Int               -- pendingOutputs
  flusher : Option Flusher         -- the model allows one open flusher per family
  deriving DecidableEq, Repr

structure Mem where
  cfg : Cfg
  fams : List Fam                  -- store.families / storeInfo.Families (kept in id order)
  familySeq : Int
  vs : VS
  journal : Int                    -- number of the manifest file the journal writer has open
  deriving DecidableEq, Repr

/-- insertion sort: directory listings are sorted by name (= by number below 10^6). -/
def insertSorted (x : Int) : List Int → List Int
  | [] => [x]
  | y :: t => if x ≤ y then x :: y :: t else y :: insertSorted x t

def sortInts (l : List Int) : List Int := l.foldr insertSorted []

/-- the step names of storeVersionSet.setCurrent that perform I/O, in code order -/
def setCurrentSteps : List String := ["writeFileFunc", "renameFunc"]

/-- the step names of storeVersionSet.initJournal, in code order -/
def initJournalSteps : List String := ["newBufferWriterFunc", "vs.createSnapshot", "vs.persistEditLogs", "vs.setCurrent"]

def setCurrentOps (n : Int) : List FsOp :=
  setCurrentSteps.flatMap (fun s =>
    if s = "writeFileFunc" then [FsOp.writeCurrentTmp n]
    else if s = "renameFunc" then [FsOp.renameCurrent] else [])

/-- initJournal (vs.manifest == nil): create MANIFEST-n, one synced record per snapshot edit log,
CURRENT.tmp, rename. Built from the step list so that a re-ordering changes the model. -/
def initJournalOps (vs : VS) : List FsOp :=
  initJournalSteps.flatMap (fun s =>
    if s = "newBufferWriterFunc" then [FsOp.createManifest vs.manifestNo]
    else if s = "vs.persistEditLogs" then (snapshot vs).map (fun el => FsOp.appendRec vs.manifestNo (marshal el))
    else if s = "vs.setCurrent" then setCurrentOps vs.manifestNo
    else [])

/-- store.deleteObsoleteFiles: every MANIFEST-* of the listing except ManifestFileName(manifestFileNumber). -/
def obsoleteManifestOps (d : Disk) (keep : Int) : List FsOp :=
  ((sortInts (Map.keys d.manifests)).filter (fun n => n ≠ keep)).map FsOp.removeManifest

/-- live table numbers of a family: pending outputs, files of the (only) active version, rollup files. -/
def liveFiles (pending : List Int) (v : Version) : List Int :=
  pending ++ (v.files.map (fun e => e.1.2) ++ v.rollup.map (fun e => e.1))

/-- family.deleteObsoleteFiles: remove every listed table that is not live. -/
def famObsoleteOps (d : Disk) (name : Nat) (live : List Int) : List FsOp :=
  ((sortInts (Map.keys (d.tables name))).filter (fun f => !(live.contains f))).map (FsOp.removeTable name)

/-- store.deleteFamilyObsoleteFiles -/
def allFamObsoleteOps (d : Disk) (fams : List Fam) (vs : VS) : List FsOp :=
  fams.flatMap (fun f =>
    match vs.verOf f.opt.id with
    | some v => famObsoleteOps d f.opt.name (liveFiles f.pending v)
    | none => [])

def maxId (l : List FamOpt) : Int := l.foldl (fun m o => if m < o.id then o.id else m) 0

/-- the part of newStore before Recover: OPTIONS / directory / LOCK / family directories. -/
def openPrepOps (d : Disk) : List FsOp :=
  match d.options with
  | some info =>
    (if d.lock then [] else [FsOp.lockCreate]) ++
      (info.filter (fun o => !(Map.lookup d.famDirs o.name).isSome)).map (fun o => FsOp.mkdirFam o.name)
  | none =>
    (if d.dir then [] else [FsOp.mkdirStore]) ++ (if d.lock then [] else [FsOp.lockCreate]) ++ [FsOp.writeOptions []]

/-- versions.Recover() up to (not including) initJournal: the state reached and whether it succeeded. -/
def recoverVS (cfg : Cfg) (d : Disk) : VS × Bool :=
  let info := d.options.getD []
  let vs0 := VS.init cfg.levels (info.map (·.id))
  match d.current with
  | none => (vs0, true)
  | some j =>
    match Map.lookup d.manifests j with
    | none => (vs0, false)          -- "create journal reader error"
    | some m => replay vs0 m

/-- declared step orders of functions whose order the definitions above/below follow literally
(each is tied to the regenerated call sequence of the Go function in Props/C01) -/
def persistEditLogsSteps : List String := ["editLog.marshal", "writer.Write", "writer.Sync"]       -- one `appendRec` per edit log
def recoverSteps : List String := ["vs.initJournal", "vs.recover", "vs.initJournal"]               -- no CURRENT: initJournal | recover, initJournal
def newStoreSteps : List String :=
  ["mkDirFunc", "newFileLockFunc", "lock.Lock", "store1.dumpStoreInfo", "newFamily", "versions.Recover"]
def createSnapshotSteps : List String := ["vs.createFamilySnapshot", "vs.createStoreSnapshot"]
def famSnapshotSteps : List String := ["CreateNewFile", "CreateSequence", "CreateNewReferenceFile", "CreateNewRollupFile"]
def newTableBuilderSteps : List String := ["store.nextFileNumber", "f.addPendingOutput", "table.NewStoreBuilder"]
def installCompactionSteps : List String := ["compaction.MarkInputDeletes", "compaction.AddFile", "family.commitEditLog"]
def moveCompactionSteps : List String := ["compaction.DeleteFile", "compaction.AddFile", "family.commitEditLog"]
def compactionDeferSteps : List String := ["snapshot.Close", "f.deleteObsoleteFiles"]
def createFamilySteps : List String := ["s.dumpStoreInfo", "newFamilyFunc"]                        -- writeOptions, then mkdirFam

/-- the step names of newStore's deferred function, in code order -/
def openDeferSteps : List String := ["store1.close", "store1.deleteObsoleteFiles", "store1.deleteFamilyObsoleteFiles"]

/-- kv.newStore. Returns the store (none on error) and the FS operations in code order. -/
def openStore (cfg : Cfg) (d : Disk) : Option Mem × List FsOp :=
  let info := d.options.getD []
  let prep := openPrepOps d
  let r := recoverVS cfg d
  let vs := r.1
  let fams : List Fam := info.map (fun o => ⟨o, [], none⟩)
  let body := if r.2 then prep ++ initJournalOps vs else prep
  let d1 := applyFsList d body
  let deferred := openDeferSteps.flatMap (fun s =>
    if s = "store1.close" then (if r.2 then [] else [FsOp.lockRemove])
    else if s = "store1.deleteObsoleteFiles" then obsoleteManifestOps d1 vs.manifestNo
    else if s = "store1.deleteFamilyObsoleteFiles" then allFamObsoleteOps d1 fams vs
    else [])
  (if r.2 then some ⟨cfg, fams, maxId info, vs, vs.manifestNo⟩ else none, body ++ deferred)

/-! ## Operations on an open store -/

def Mem.fam? (m : Mem) (name : Nat) : Option Fam := m.fams.find? (fun f => f.opt.name = name)

def Mem.setFam (m : Mem) (f : Fam) : Mem :=
  { m with fams := m.fams.map (fun g => if g.opt.name = f.opt.name then f else g) }

def Mem.info (m : Mem) : List FamOpt := m.fams.map (·.opt)

/-- store.CreateFamily (+ newFamily). `none` = the call returns an error. -/
def createFamily (m : Mem) (d : Disk) (name : Nat) (threshold : Int) : Option (Mem × List FsOp) :=
  match m.fam? name with
  | some _ => some (m, [])
  | none =>
    if (Map.lookup d.famDirs name).isSome then
      -- path exists but no option is known: the zero FamilyOption has no merger → error
      none
    else
      let id := m.familySeq + 1
      let o : FamOpt := ⟨name, id, threshold⟩
      let m' := { m with familySeq := id, fams := m.fams ++ [⟨o, [], none⟩],
                         vs := { m.vs with fams := m.vs.fams ++ [⟨id, Version.empty m.cfg.levels⟩] } }
      some (m', [FsOp.writeOptions m'.info, FsOp.mkdirFam name])

/-- storeBuilder.ensureIncreasingKey: a key that is not larger than the last accepted key is dropped. -/
def acceptKeys : Option Nat → List (Nat × Nat) → List (Nat × Nat)
  | _, [] => []
  | none, kv :: t => kv :: acceptKeys (some kv.1) t
  | some last, kv :: t => if kv.1 ≤ last then acceptKeys (some last) t else kv :: acceptKeys (some kv.1) t

/-- NewFlusher, Sequence calls, and the Adds (the first Add runs family.newTableBuilder:
NextFileNumber, addPendingOutput, create the table file). -/
def flushStart (m : Mem) (name : Nat) (kvs : List (Nat × Nat)) (seqs : List (Int × Int)) : Option (Mem × List FsOp) :=
  match m.fam? name with
  | none => none
  | some f =>
    if f.flusher.isSome then none else
    match acceptKeys none kvs with
    | [] => some (m.setFam { f with flusher := some ⟨none, seqs⟩ }, [])
    | acc =>
      let n := m.vs.next
      let m1 := { m with vs := { m.vs with next := n + 1 } }
      some (m1.setFam { f with pending := f.pending ++ [n], flusher := some ⟨some (n, acc), seqs⟩ },
            [FsOp.createTable name n])

def minKey (c : List (Nat × Nat)) : Nat := match c with | [] => 0 | kv :: _ => kv.1
def maxKey (c : List (Nat × Nat)) : Nat := match c.getLast? with | none => 0 | some kv => kv.1

/-- the step names of storeVersionSet.CommitFamilyEditLog, in code order -/
def commitSteps : List String := ["editLog.Add", "vs.persistEditLogs", "editLog.apply", "familyVersion.appendVersion"]

/-- family.commitEditLog → CommitFamilyEditLog: nothing for an empty edit log; otherwise append
NextFileNumber(next), one synced record, then apply to (a clone of) the current version. -/
def commitEditLog (m : Mem) (fid : Int) (logs : List Log) : Option (Mem × List FsOp) :=
  if logs = [] then some (m, []) else
  if !m.vs.hasFam fid then none else
  let el : EditLog := ⟨fid, logs ++ [.nextFileNumber m.vs.next]⟩
  match applyEL m.vs el with
  | none => none
  | some vs' => some ({ m with vs := vs' }, [FsOp.appendRec m.journal (marshal el)])

/-! ### CommitFamilyEditLog as the atomic steps the code has

`CommitFamilyEditLog` runs `vs.GetFamilyVersion(family)` (read lock, released), then takes `vs.mutex`
and does everything else inside that critical section. A concurrent execution therefore sees a commit
as two steps: `commitRead` (what has been read when the goroutine reaches `vs.mutex.Lock()`) and
`commitLocked` (the critical section). Which of the two state reads — the next file number that is
logged, the family's current version that is cloned — happen before the lock is a regenerated fact
(`Generated.C01.commitBeforeLockCalls` / `commitUnderLockCalls`); the model takes it as the parameter
`before`, so that the interleaving theorems are about the split the source has NOW. -/

/-- what a committer holds when it reaches `vs.mutex.Lock()` -/
structure Pre where
  next : Option Int          -- `some n`: nextFileNumber was read (and added to the edit log) before the lock
  ver : Option Version       -- `some v`: the family's current version was taken before the lock
  deriving DecidableEq, Repr

def readNextStep : String := "nextFileNumber.Load"
def readVersionStep : String := "familyVersion.GetSnapshot"

/-- calls of CommitFamilyEditLog before `vs.mutex.Lock()`, in code order -/
def commitBeforeLockSteps : List String := ["vs.GetFamilyVersion"]
/-- calls of CommitFamilyEditLog after `vs.mutex.Lock()` (under the lock until return), in code order -/
def commitUnderLockSteps : List String :=
  [readNextStep, "editLog.Add", "vs.persistEditLogs", readVersionStep, "editLog.apply", "familyVersion.appendVersion"]

/-- the part of CommitFamilyEditLog before `vs.mutex.Lock()`, for a given list of calls made there -/
def commitRead (before : List String) (m : Mem) (fid : Int) : Pre :=
  ⟨if before.contains readNextStep then some m.vs.next else none,
   if before.contains readVersionStep then m.vs.verOf fid else none⟩

/-- familyVersion.appendVersion on the model's one-version-per-family state -/
def VS.setVer (s : VS) (fid : Int) (v : Version) : VS :=
  { s with fams := s.fams.map (fun f => if f.id = fid then { f with ver := v } else f) }

/-- the critical section of CommitFamilyEditLog: add NextFileNumber (the value read before the lock if
there is one, else the current one), append one synced record, apply the edit log to a clone of the
version taken before the lock if there is one, else of the current version, install it. -/
def commitLocked (m : Mem) (fid : Int) (logs : List Log) (pre : Pre) : Option (Mem × List FsOp) :=
  if logs = [] then some (m, []) else
  if !m.vs.hasFam fid then none else
  let el : EditLog := ⟨fid, logs ++ [.nextFileNumber (pre.next.getD m.vs.next)]⟩
  let base := match pre.ver with
    | some v => m.vs.setVer fid v
    | none => m.vs
  match applyEL base el with
  | none => none
  | some vs' => some ({ m with vs := vs' }, [FsOp.appendRec m.journal (marshal el)])

/-- the step names of storeFlusher.Commit, in code order -/
def flushCommitSteps : List String :=
  ["builder.Close", "version.CreateNewFile", "version.CreateSequence", "version.CreateNewRollupFile", "family.commitEditLog"]

/-- storeFlusher.Commit. `size` is the table file's size reported by the builder (abstract here). -/
def flushCommit (m : Mem) (name : Nat) (size : Nat) : Option (Mem × List FsOp) :=
  match m.fam? name with
  | none => none
  | some f =>
    match f.flusher with
    | none => none
    | some fl =>
      let closeOps := match fl.builder with
        | some (n, c) => [FsOp.closeTable name n c]
        | none => []
      let logs := flushCommitSteps.flatMap (fun s =>
        if s = "version.CreateNewFile" then
          (match fl.builder with | some (n, c) => [Log.newFile 0 n (minKey c) (maxKey c) size] | none => [])
        else if s = "version.CreateSequence" then fl.seqs.map (fun e => Log.sequence e.1 e.2)
        else if s = "version.CreateNewRollupFile" then
          (match fl.builder with
           | some (n, _) => m.cfg.rollup.map (fun i => Log.newRollupFile n i)
           | none => [])
        else [])
      match commitEditLog m f.opt.id logs with
      | none => none
      | some (m1, ops) =>
        let pend := match fl.builder with | some (n, _) => f.pending.filter (· ≠ n) | none => f.pending
        some (m1.setFam { f with pending := pend, flusher := none }, closeOps ++ ops)

/-- storeFlusher.Commit when the table builder's Close fails (the error of the final buffer flush /
file close reaches Commit through storeBuilder.Close's named result): Commit returns the error BEFORE
anything is added to the edit log — no record is appended, no version changes; the deferred function
drops the pending output. The table file stays as it is (partial): an orphan for the next cleanup.
Only defined for a flusher that has a table. -/
def flushFail (m : Mem) (name : Nat) : Option (Mem × List FsOp) :=
  match m.fam? name with
  | none => none
  | some f =>
    match f.flusher with
    | none => none
    | some fl =>
      match fl.builder with
      | none => none
      | some (n, _) => some (m.setFam { f with pending := f.pending.filter (· ≠ n), flusher := none }, [])

/-- the merger registered by the harness: values of one key are added. -/
def mergeInto (acc : List (Nat × Nat)) (kv : Nat × Nat) : List (Nat × Nat) :=
  match acc with
  | [] => [kv]
  | (k, v) :: t =>
    if kv.1 = k then (k, v + kv.2) :: t
    else if kv.1 < k then kv :: (k, v) :: t
    else (k, v) :: mergeInto t kv

/-- doMerge over the merged iterator of the input tables: keys ascending, values of equal keys added. -/
def mergeContents (cs : List (List (Nat × Nat))) : List (Nat × Nat) :=
  cs.foldl (fun acc c => c.foldl mergeInto acc) []

def filesAt (v : Version) (lvl : Int) : List (Int × FileMeta) :=
  (v.files.filter (fun e => e.1.1 = lvl)).map (fun e => (e.1.2, e.2))

/-- version.getOverlappingInputs for one key range -/
def overlaps (fm : FileMeta) (mn mx : Nat) : Bool := !(fm.maxKey < mn || fm.minKey > mx)

def readTables (d : Disk) (name : Nat) (fs : List Int) : Option (List (List (Nat × Nat))) :=
  fs.mapM (fun f => match d.table name f with
    | some t => if t.complete then some t.content else none
    | none => none)

/-- the deferred `f.deleteObsoleteFiles()` of backgroundCompactionJob, on the state after the job -/
def cleanupOps (m : Mem) (d : Disk) (name : Nat) (fid : Int) : List FsOp :=
  match m.fam? name, m.vs.verOf fid with
  | some f, some v => famObsoleteOps d name (liveFiles f.pending v)
  | _, _ => []

/-- table operations `pre`, then family.commitEditLog(logs), then the deferred cleanup -/
def commitAndClean (m : Mem) (d : Disk) (name : Nat) (fid : Int) (pre : List FsOp) (logs : List Log) (kind : String) :
    Option (Mem × List FsOp × String) :=
  match commitEditLog m fid logs with
  | none => none
  | some (m1, ops) => some (m1, pre ++ ops ++ cleanupOps m1 (applyFsList d (pre ++ ops)) name fid, kind)

/-- family.backgroundCompactionJob: PickL0Compaction(option.CompactThreshold), compactJob.Run
(moveCompaction | mergeCompaction), then (deferred) deleteObsoleteFiles. `size` = size of the
output table if one is written. `none` = bad call; an I/O failure (missing input table) returns the
state unchanged with the cleanup operations only ("ioerr"). -/
def compact (m : Mem) (d : Disk) (name : Nat) (size : Nat) : Option (Mem × List FsOp × String) :=
  match m.fam? name with
  | none => none
  | some f =>
    match m.vs.verOf f.opt.id with
    | none => none
    | some v =>
      let l0 := filesAt v 0
      if (l0.length : Int) < f.opt.threshold then commitAndClean m d name f.opt.id [] [] "none" else
      let up := (filesAt v 1).filter (fun e => l0.any (fun lo => overlaps e.2 lo.2.minKey lo.2.maxKey))
      match l0, up with
      | [(n, fm)], [] =>
        -- moveCompaction
        commitAndClean m d name f.opt.id [] [.deleteFile 0 n, .newFile 1 n fm.minKey fm.maxKey fm.size] "move"
      | _, _ =>
        -- mergeCompaction
        match readTables d name (l0.map (·.1) ++ up.map (·.1)) with
        | none => commitAndClean m d name f.opt.id [] [] "ioerr"
        | some cs =>
          let out := mergeContents cs
          let deletes := l0.map (fun e => Log.deleteFile 0 e.1) ++ up.map (fun e => Log.deleteFile 1 e.1)
          if out = [] then commitAndClean m d name f.opt.id [] deletes "merge"
          else
            let n := m.vs.next
            let m0 := { m with vs := { m.vs with next := n + 1 } }
            commitAndClean m0 d name f.opt.id [FsOp.createTable name n, FsOp.closeTable name n out]
              (deletes ++ [.newFile 1 n (minKey out) (maxKey out) size]) "merge"

/-- the rollup-bookkeeping kinds a family commits outside flush/compaction (family_rollup.go) -/
def Log.isBookkeeping : Log → Bool
  | .deleteRollupFile .. => true
  | .newReferenceFile .. => true
  | .deleteReferenceFile .. => true
  | _ => false

/-- family.commitEditLog with rollup-bookkeeping logs (rollup(): DeleteRollupFile; doRollupWork:
NewReferenceFile; cleanReferenceFiles: DeleteReferenceFile). -/
def editCommit (m : Mem) (name : Nat) (logs : List Log) : Option (Mem × List FsOp) :=
  match m.fam? name with
  | none => none
  | some f => if logs.all Log.isBookkeeping then commitEditLog m f.opt.id logs else none

/-- store.close: families wait, cache close, versions.Destroy (closes the journal), lock.Unlock (removes LOCK). -/
def closeStore (_m : Mem) : List FsOp := [FsOp.lockRemove]

end LinVerif.Kv
