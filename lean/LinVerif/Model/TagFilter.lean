/-
Model of lindb's tag filtering through the index (property C10), core Lean only.

  write path   index/metric_index_database.go  GenSeriesID / buildInvertIndex,
               index/metric_meta_database.go   GenTagKeyID / GenTagValueID (index/kv_store.go getOrCreateValue)
  index state  three stores, each `mutable ∪ immutable ∪ level-0 files ∪ level-1 files`:
                 dictionary  tagKeyId → value → valueId     (index/kv_store.go, index/model/trie_bucket.go)
                 inverted    valueId → series ids            (metric_index_database.go invertedIndex)
                 forward     tagKeyId → series id → valueId  (metric_index_database.go forwardIndex,
                                                              index/v1/forward_reader.go for files)
               PrepareFlush / Flush / kv compaction with the registered mergers
               (index/v1/{index_kv,inverted,forward}_merger.go)
  query path   query/operator/tag_values_lookup.go  (`lookupAll`, results keyed by `Rewrite()`),
               query/operator/series_filtering.go   (`filterExpr`),
               forwardIndex.GetGroupingContext + flow/grouping.go (`groupingContext`, `buildGroup`),
               indexKVStore.CollectKVs (`Dict.keyOfId`)

Strings are byte lists (`List Nat`); roaring bitmaps / imap.IntMap / Go maps are lists of entries
read as sets (their contract); the succinct trie is a list of (key, id) entries with `Get` and a
prefix iterator (its contract, property C20); Go's regexp is the parameter `Matcher`.
Four code facts that the model depends on are parameters (`Flags`), regenerated from /repo's
source on every run (LinVerif/Generated/C10.lean) — see each field.
-/
import LinVerif.Util.Map

namespace LinVerif.TagFilter
open LinVerif

abbrev Bytes := List Nat
abbrev Tags := List (Bytes × Bytes)
/-- namespace + metric name (one opaque token) -/
abbrev Metric := Bytes
abbrev SeriesId := Nat
abbrev KeyId := Nat
abbrev ValId := Nat

/-- facts re-read from the Go source by `lvh extract` -/
structure Flags where
  /-- `TagFilterResult[expr.Rewrite()]` (true) vs. an injective key (false) in both operators -/
  keyByRewrite : Bool
  /-- `FindValuesByLike` has a `case like == "*"` before the wildcard cases -/
  likeStarGuarded : Bool
  /-- `TrieBucket.FindValuesByRegexp` narrows the trie iterator by `rp.LiteralPrefix()` -/
  rxLitPrefix : Bool
  /-- `NewTagForwardReader`: `lut[idx+1] = lut[idx] + card` (true) vs. `lut[idx+1] = card` (false) -/
  lutCumulative : Bool
  /-- `PrepareFlush` swaps the tables when `immutable == nil || immutable.IsEmpty()` (true) vs. only
  when `immutable == nil` (false: an empty immutable table, which `Flush` never clears, blocks every later swap) -/
  prepareOnEmpty : Bool
  deriving DecidableEq, Repr

/-- contract of Go's `regexp` as used by index/kv_store.go and trie_bucket.go -/
structure Matcher where
  /-- `regexp.Compile(p)` succeeds -/
  valid : Bytes → Bool
  /-- `rp.Match(value)` -/
  isMatch : Bytes → Bytes → Bool
  /-- `rp.LiteralPrefix()` -/
  lit : Bytes → Bytes

/-! ### expressions (sql/stmt/expr.go) -/

/-- the four `stmt.TagFilter` implementations -/
inductive Atom
  | eq (k v : Bytes)
  | inn (k : Bytes) (vs : List Bytes)
  | like (k v : Bytes)
  | rx (k p : Bytes)
  deriving DecidableEq, Repr

/-- `TagKey()` -/
def Atom.key : Atom → Bytes
  | .eq k _ => k | .inn k _ => k | .like k _ => k | .rx k _ => k

/-- the `stmt.Expr` shapes handled by the two operators' type switches.
`badop` = a `BinaryExpr` whose operator is neither AND nor OR. -/
inductive Expr
  | atom (a : Atom)
  | paren (e : Expr)
  | not (e : Expr)
  | and (l r : Expr)
  | or (l r : Expr)
  | badop (l r : Expr)
  deriving DecidableEq, Repr

def star : Nat := 42      -- '*'
def chEq : Nat := 61      -- '='
def chTilde : Nat := 126  -- '~'
def chComma : Nat := 44   -- ','
def sIn : Bytes := [32, 105, 110, 32, 40]      -- " in ("
def sClose : Bytes := [41]                      -- ")"
def sLike : Bytes := [32, 108, 105, 107, 101, 32] -- " like "

def joinComma : List Bytes → Bytes
  | [] => []
  | [v] => v
  | v :: vs => v ++ chComma :: joinComma vs

/-- `Rewrite()` of the four tag filters: "%s=%s", "%s in (%s)" with strings.Join(",") ,
"%s like %s", "%s=~%s" -/
def Atom.rewrite : Atom → Bytes
  | .eq k v => k ++ chEq :: v
  | .inn k vs => k ++ sIn ++ joinComma vs ++ sClose
  | .like k v => k ++ sLike ++ v
  | .rx k p => k ++ chEq :: chTilde :: p

/-! ### index state -/

/-- one part (memory table or file) of the tag-value dictionary: (tagKeyId, value, valueId) -/
abbrev DictPart := List (KeyId × Bytes × ValId)
/-- one part of the inverted index: (valueId, seriesId) -/
abbrev InvPart := List (ValId × SeriesId)
/-- one memory part of the forward index: (tagKeyId, seriesId, valueId) -/
abbrev FwdPart := List (KeyId × SeriesId × ValId)
/-- one roaring container of a flushed forward entry: high key, (low key, valueId) ascending by low -/
abbrev Container := Nat × List (Nat × ValId)
/-- one forward file: per tag key id the containers ascending by high key. On disk this is the
series-id bitmap followed by ALL value ids in bitmap order (forward_flusher.go). -/
abbrev FwdFile := List (KeyId × List Container)

/-- where a store's `flush()` stands: `writing` = the sst file is being written (created, not yet
installed, invisible to readers); `committed` = `flusher.Close()` succeeded (new version installed)
but `immutable = nil` has not run yet -/
inductive Phase
  | idle | writing | committed
  deriving DecidableEq, Repr

structure Dict where
  mtb : DictPart := []
  imm : Option DictPart := none
  l0 : List DictPart := []
  l1 : List DictPart := []
  deriving Repr

structure Inv where
  mtb : InvPart := []
  imm : Option InvPart := none
  l0 : List InvPart := []
  l1 : List InvPart := []
  phase : Phase := .idle
  deriving Repr

structure Fwd where
  mtb : FwdPart := []
  imm : Option FwdPart := none
  l0 : List FwdFile := []
  l1 : List FwdFile := []
  phase : Phase := .idle
  deriving Repr

structure State where
  /-- metric schema store: (metric, tag key) → tag key id (`genTagKeyID`; ids from one database-wide sequence) -/
  schema : List ((Metric × Bytes) × KeyId) := []
  keySeq : Nat := 0
  valSeq : Nat := 0
  /-- series store of the index database: tags (hash) → series id, per metric -/
  series : List ((Metric × Tags) × SeriesId) := []
  /-- ghost: the (metric, series id, tags) indexed so far, tags in indexing order -/
  written : List (Metric × SeriesId × Tags) := []
  dict : Dict := {}
  inv : Inv := {}
  fwd : Fwd := {}
  deriving Repr

def State.init : State := {}

def Dict.files (d : Dict) : List DictPart := d.l0 ++ d.l1
def Inv.files (d : Inv) : List InvPart := d.l0 ++ d.l1
def Fwd.files (d : Fwd) : List FwdFile := d.l0 ++ d.l1

def optList {α : Type} (o : Option (List α)) : List α := o.getD []

/-- every dictionary entry, whichever part holds it -/
def Dict.all (d : Dict) : DictPart := d.mtb ++ optList d.imm ++ d.files.flatten
/-- every posting, whichever part holds it -/
def Inv.all (d : Inv) : InvPart := d.mtb ++ optList d.imm ++ d.files.flatten

def containerEntries (c : Container) : List (SeriesId × ValId) :=
  c.2.map (fun lv => (c.1 * 65536 + lv.1, lv.2))

/-- the (tagKeyId, seriesId, valueId) triples a forward file stores (what was flushed into it) -/
def fileEntries (f : FwdFile) : FwdPart :=
  f.flatMap (fun kc => kc.2.flatMap (fun c => (containerEntries c).map (fun sv => (kc.1, sv.1, sv.2))))

/-! ### dictionary reads (index/kv_store.go) -/

/-- `getValueFromMem` / `TrieBucket.GetValue`: id of `v` under bucket `kid` in one part -/
def partFind (p : DictPart) (kid : KeyId) (v : Bytes) : Option ValId :=
  (p.find? (fun e => e.1 == kid && e.2.1 == v)).map (fun e => e.2.2)

/-- `getOrCreateValue` without create: mutable, immutable, then the persisted buckets -/
def Dict.findValue (d : Dict) (kid : KeyId) (v : Bytes) : Option ValId :=
  match partFind d.mtb kid v with
  | some id => some id
  | none =>
    match partFind (optList d.imm) kid v with
    | some id => some id
    | none => partFind d.files.flatten kid v

/-- `findValue`: append the id if found -/
def Dict.findValueL (d : Dict) (kid : KeyId) (v : Bytes) : List ValId :=
  (d.findValue kid v).toList

/-- `bytes.Contains` -/
def isInfix (sub : Bytes) : Bytes → Bool
  | [] => sub.isEmpty
  | x :: xs => sub.isPrefixOf (x :: xs) || isInfix sub xs

/-- `findValuesByLike(bucket, prefix, subKey, check)`: the persisted tries are walked with a prefix
iterator over `pre` and filtered by `check`; the memory tables are filtered by `check` only -/
def Dict.scan (d : Dict) (kid : KeyId) (pre : Bytes) (check : Bytes → Bool) : List ValId :=
  ((d.files.flatten.filter (fun e => e.1 == kid && pre.isPrefixOf e.2.1 && check e.2.1)).map (·.2.2))
  ++ ((d.mtb.filter (fun e => e.1 == kid && check e.2.1)).map (·.2.2))
  ++ (((optList d.imm).filter (fun e => e.1 == kid && check e.2.1)).map (·.2.2))

inductive Err
  | metricNotFound | keyNotFound | badRegexp | badOperator | filterResultNotFound | notFound | panic
  deriving DecidableEq, Repr

/-- `FindValuesByLike`: the switch on `strings.HasPrefix(like,"*")` / `HasSuffix`, case order as in the
source (`likeCases`). `likeSlice[1:len-1]` panics when the pattern is the single byte `*`. -/
def findValuesByLike (F : Flags) (d : Dict) (kid : KeyId) (p : Bytes) : Except Err (List ValId) :=
  let hp := p.head? == some star
  let hs := p.getLast? == some star
  if p == [] then .ok []
  else if F.likeStarGuarded && p == [star] then .ok (d.scan kid [] (fun _ => true))
  else if !hp && hs then .ok (d.scan kid p.dropLast (fun v => p.dropLast.isPrefixOf v))
  else if hp && !hs then .ok (d.scan kid [] (fun v => p.tail.isSuffixOf v))
  else if hp && hs then
    (if p.length < 2 then .error .panic
     else .ok (d.scan kid [] (fun v => isInfix p.tail.dropLast v)))
  else .ok (d.findValueL kid p)

/-- `FindValuesByRegexp`: persisted tries via `TrieBucket.FindValuesByRegexp` (prefix iterator over
the literal prefix when `rxLitPrefix`), memory tables by `rp.Match` -/
def findValuesByRegexp (F : Flags) (M : Matcher) (d : Dict) (kid : KeyId) (p : Bytes) : List ValId :=
  d.scan kid (if F.rxLitPrefix then M.lit p else []) (fun v => M.isMatch p v)

/-- `FindValuesByExpr`: the type switch over the four filters -/
def resolveAtom (F : Flags) (M : Matcher) (d : Dict) (kid : KeyId) : Atom → Except Err (List ValId)
  | .eq _ v => .ok (d.findValueL kid v)
  | .inn _ vs => .ok (vs.flatMap (fun v => d.findValueL kid v))
  | .like _ p => findValuesByLike F d kid p
  | .rx _ p => if M.valid p then .ok (findValuesByRegexp F M d kid p) else .error .badRegexp

/-- `CollectKVs`: the value string of an id under a bucket (mutable, immutable, persisted) -/
def Dict.keyOfId (d : Dict) (kid : KeyId) (id : ValId) : Option Bytes :=
  (d.all.find? (fun e => e.1 == kid && e.2.2 == id)).map (fun e => e.2.1)

/-! ### inverted / forward reads (index/metric_index_database.go) -/

/-- `findSeriesIDsByKeys`: for every value id the persisted bitmaps, then mutable, then immutable -/
def Inv.postings (d : Inv) (id : ValId) : List SeriesId :=
  ((d.files.flatten.filter (fun e => e.1 == id)).map (·.2))
  ++ ((d.mtb.filter (fun e => e.1 == id)).map (·.2))
  ++ (((optList d.imm).filter (fun e => e.1 == id)).map (·.2))

def Inv.seriesOfIds (d : Inv) (ids : List ValId) : List SeriesId :=
  ids.flatMap d.postings

def partSeriesForTag (p : FwdPart) (kid : KeyId) : List SeriesId :=
  (p.filter (fun e => e.1 == kid)).map (·.2.1)

/-- `tagForwardReader.GetSeriesIDs` of every file entry for the tag key -/
def fileSeriesForTag (f : FwdFile) (kid : KeyId) : List SeriesId :=
  (f.filter (fun kc => kc.1 == kid)).flatMap (fun kc => kc.2.flatMap (fun c => (containerEntries c).map (·.1)))

/-- `findSeriesIDsForTag`: memory (mutable, immutable) then `ForwardReader.GetSeriesIDsForTagKeyID` -/
def Fwd.seriesForTag (d : Fwd) (kid : KeyId) : List SeriesId :=
  partSeriesForTag d.mtb kid ++ partSeriesForTag (optList d.imm) kid
  ++ d.files.flatMap (fun f => fileSeriesForTag f kid)

/-! ### write path -/

/-- `genTagKeyID`: schema lookup, else next id of the tag-key sequence -/
def genTagKeyID (st : State) (m : Metric) (k : Bytes) : State × KeyId :=
  match Map.lookup st.schema (m, k) with
  | some kid => (st, kid)
  | none => ({ st with schema := st.schema ++ [((m, k), st.keySeq)], keySeq := st.keySeq + 1 }, st.keySeq)

/-- `GenTagValueID` = `tagValue.GetOrCreateValue(tagKeyID, value, GenTagValueSeq)`;
`createValue` stores into the mutable table -/
def genTagValueID (st : State) (kid : KeyId) (v : Bytes) : State × ValId :=
  match st.dict.findValue kid v with
  | some id => (st, id)
  | none =>
    ({ st with dict := { st.dict with mtb := st.dict.mtb ++ [(kid, v, st.valSeq)] }, valSeq := st.valSeq + 1 },
     st.valSeq)

/-- ghost update: record tag `kv` on the entry of `(m, sid)` -/
def addWritten (w : List (Metric × SeriesId × Tags)) (m : Metric) (sid : SeriesId) (kv : Bytes × Bytes) :
    List (Metric × SeriesId × Tags) :=
  w.map (fun e => if e.1 = m ∧ e.2.1 = sid then (e.1, e.2.1, e.2.2 ++ [kv]) else e)

/-- one iteration of `buildInvertIndex`: key id, value id, `inverted.put`, `forward.put`
(`PutIfNotExist` on the mutable forward entry of the key) -/
def addTag (st : State) (m : Metric) (sid : SeriesId) (kv : Bytes × Bytes) : State :=
  let (st1, kid) := genTagKeyID st m kv.1
  let (st2, id) := genTagValueID st1 kid kv.2
  { st2 with
    inv := { st2.inv with mtb := st2.inv.mtb ++ [(id, sid)] }
    fwd := { st2.fwd with
             mtb := if st2.fwd.mtb.any (fun e => e.1 == kid && e.2.1 == sid) then st2.fwd.mtb
                    else st2.fwd.mtb ++ [(kid, sid, id)] }
    written := addWritten st2.written m sid kv }

/-- `createSeriesID`: series ids of a metric are 0,1,2,… (sequence cache / max+1) -/
def nextSeriesId (st : State) (m : Metric) : SeriesId :=
  (st.series.filter (fun e => e.1.1 == m)).length

/-- `GenSeriesID`: known tags (hash) → the stored id, nothing indexed; else a new id and
`buildInvertIndex` over the row's tags. Returns (state, id, isNew). -/
def write (st : State) (m : Metric) (tags : Tags) : State × SeriesId × Bool :=
  match Map.lookup st.series (m, tags) with
  | some sid => (st, sid, false)
  | none =>
    let sid := nextSeriesId st m
    let st1 := { st with series := st.series ++ [((m, tags), sid)], written := st.written ++ [(m, sid, [])] }
    (tags.foldl (fun s kv => addTag s m sid kv) st1, sid, true)

/-! ### flush and compaction -/

def insLow (low : Nat) (v : ValId) : List (Nat × ValId) → List (Nat × ValId)
  | [] => [(low, v)]
  | (l, w) :: t => if low < l then (low, v) :: (l, w) :: t else (l, w) :: insLow low v t

def insContainer (high low : Nat) (v : ValId) : List Container → List Container
  | [] => [(high, [(low, v)])]
  | (h, es) :: t =>
    if high < h then (high, [(low, v)]) :: (h, es) :: t
    else if high = h then (h, insLow low v es) :: t
    else (h, es) :: insContainer high low v t

def insKey (kid : KeyId) (s : SeriesId) (v : ValId) : FwdFile → FwdFile
  | [] => [(kid, insContainer (s / 65536) (s % 65536) v [])]
  | (k, cs) :: t =>
    if k = kid then (k, insContainer (s / 65536) (s % 65536) v cs) :: t
    else (k, cs) :: insKey kid s v t

/-- `forwardIndex.flush` / `forwardIndexMerger.Merge` output layout: per key the series bitmap
(containers ascending) and the value ids in that order -/
def buildFwdFile (p : FwdPart) : FwdFile :=
  p.foldl (fun f e => insKey e.1 e.2.1 e.2.2 f) []

/-- walk of `NewTagForwardReader`'s lookup table together with `GetContainerIndex(highKey)`:
`off` is `lut[index]` of the container at the head: `lut[0] = 0` and `lut[idx+1] = lut[idx] + card`
(cumulative) resp. `lut[idx+1] = card` (the source as extracted). The container's low keys are
zipped with `buf[lut[index]*4 : (lut[index]+card)*4]`. -/
def readFrom (cum : Bool) (allVals : List ValId) (high : Nat) : Nat → List Container → Option (List (Nat × ValId))
  | _, [] => none
  | off, c :: t =>
    if c.1 == high then some ((c.2.map (·.1)).zip ((allVals.drop off).take c.2.length))
    else readFrom cum allVals high (if cum then off + c.2.length else c.2.length) t

/-- `tagForwardReader.GetSeriesAndTagValue(highKey)` -/
def readContainer (cum : Bool) (cs : List Container) (high : Nat) : Option (List (Nat × ValId)) :=
  readFrom cum (cs.flatMap (fun c => c.2.map (·.2))) high 0 cs

/-- everything a `tagForwardScanner` yields for one file entry (used by the merger) -/
def readAllContainers (cum : Bool) (cs : List Container) : List (SeriesId × ValId) :=
  cs.flatMap (fun c => ((readContainer cum cs c.1).getD []).map (fun lv => (c.1 * 65536 + lv.1, lv.2)))

/-- `forwardIndexMerger.Merge` over all inputs -/
def mergeFwdFiles (cum : Bool) (fs : List FwdFile) : FwdFile :=
  buildFwdFile (fs.flatMap (fun f => f.flatMap (fun kc => (readAllContainers cum kc.2).map (fun sv => (kc.1, sv.1, sv.2)))))

/-- `PrepareFlush` of the tag-value store (`indexKVStore.PrepareFlush`): swap when no immutable table
exists (or, with `onEmpty`, when it is empty) -/
def Dict.prepare (onEmpty : Bool) (d : Dict) : Dict :=
  match d.imm with
  | none => { d with imm := some d.mtb, mtb := [] }
  | some [] => if onEmpty then { d with imm := some d.mtb, mtb := [] } else d
  | some _ => d

/-- `indexKVStore.Flush`: nothing unless the immutable table is non-empty (it then STAYS set) -/
def Dict.flush (d : Dict) : Dict :=
  match d.imm with
  | none => d
  | some [] => d
  | some p => { d with imm := none, l0 := d.l0 ++ [p] }

/-- level-0 compaction with `IndexKVMerger` (`Family.Compact` needs more than one level-0 file) -/
def Dict.compact (d : Dict) : Dict :=
  if d.l0.length > 1 then { d with l0 := [], l1 := [(d.l0 ++ d.l1).flatten] } else d

def Inv.prepare (onEmpty : Bool) (d : Inv) : Inv :=
  match d.imm with
  | none => { d with imm := some d.mtb, mtb := [] }
  | some [] => if onEmpty then { d with imm := some d.mtb, mtb := [] } else d
  | some _ => d

/-- `invertedIndex.flush` as one step (nobody looks inside; a flush already in progress makes
`metricIndexDatabase.Flush` return at once: the `flushing` CAS) -/
def Inv.flushNow (d : Inv) : Inv :=
  match d.imm with
  | none => d
  | some [] => d
  | some p => { d with imm := none, l0 := d.l0 ++ [p] }

def Inv.flush (d : Inv) : Inv :=
  if d.phase ≠ .idle then d else d.flushNow

/-! The steps of `invertedIndex.flush` in source order (`Generated.C10.invFlushEvents`):
`needFlush` → `NewFlusher`/`newInvertedIndexFlusher`/`WalkEntry` (file written) → `flusher.Close()`
(file committed, new version installed) → `immutable = nil` under the lock. Readers see
`files ∪ mutable ∪ immutable` at every point between them. -/

/-- `needFlush()` holds and the sst file is being written -/
def Inv.flushWrite (d : Inv) : Inv :=
  if d.phase ≠ .idle then d
  else
    match d.imm with
    | none => d
    | some [] => d
    | some _ => { d with phase := .writing }

/-- the flush fails before `flusher.Close()` succeeded (file creation, write or manifest commit
error): the error is returned, the immutable table stays for the retry -/
def Inv.flushFail (d : Inv) : Inv :=
  if d.phase = .writing then { d with phase := .idle } else d

/-- `flusher.Close()` succeeded: the file is a level-0 file of the current version; `immutable` is
still set -/
def Inv.flushCommit (d : Inv) : Inv :=
  if d.phase = .writing then
    match d.imm with
    | some p => { d with l0 := d.l0 ++ [p], phase := .committed }
    | none => d
  else d

/-- `immutable = nil` -/
def Inv.flushDrop (d : Inv) : Inv :=
  if d.phase = .committed then { d with imm := none, phase := .idle } else d

def Inv.compact (d : Inv) : Inv :=
  if d.l0.length > 1 then { d with l0 := [], l1 := [(d.l0 ++ d.l1).flatten] } else d

def Fwd.prepare (onEmpty : Bool) (d : Fwd) : Fwd :=
  match d.imm with
  | none => { d with imm := some d.mtb, mtb := [] }
  | some [] => if onEmpty then { d with imm := some d.mtb, mtb := [] } else d
  | some _ => d

def Fwd.flushNow (d : Fwd) : Fwd :=
  match d.imm with
  | none => d
  | some [] => d
  | some p => { d with imm := none, l0 := d.l0 ++ [buildFwdFile p] }

def Fwd.flush (d : Fwd) : Fwd :=
  if d.phase ≠ .idle then d else d.flushNow

/-- the steps of `forwardIndex.flush` (same order as `invertedIndex.flush`) -/
def Fwd.flushWrite (d : Fwd) : Fwd :=
  if d.phase ≠ .idle then d
  else
    match d.imm with
    | none => d
    | some [] => d
    | some _ => { d with phase := .writing }

def Fwd.flushFail (d : Fwd) : Fwd :=
  if d.phase = .writing then { d with phase := .idle } else d

def Fwd.flushCommit (d : Fwd) : Fwd :=
  if d.phase = .writing then
    match d.imm with
    | some p => { d with l0 := d.l0 ++ [buildFwdFile p], phase := .committed }
    | none => d
  else d

def Fwd.flushDrop (d : Fwd) : Fwd :=
  if d.phase = .committed then { d with imm := none, phase := .idle } else d

def Fwd.compact (cum : Bool) (d : Fwd) : Fwd :=
  if d.l0.length > 1 then { d with l0 := [], l1 := [mergeFwdFiles cum (d.l0 ++ d.l1)] } else d

/-- placement steps of the histories the property quantifies over -/
inductive Step
  | prepareMeta | flushMeta | compactMeta | prepareIndex | flushIndex | compactIndex
  -- the index flush seen from inside: `metricIndexDatabase.Flush` runs forward.flush, then inverted.flush
  | fwdWrite | fwdFail | fwdCommit | fwdDrop | invWrite | invFail | invCommit | invDrop
  deriving DecidableEq, Repr

def State.step (F : Flags) (st : State) : Step → State
  | .prepareMeta => { st with dict := st.dict.prepare F.prepareOnEmpty }
  | .flushMeta => { st with dict := st.dict.flush }
  | .compactMeta => { st with dict := st.dict.compact }
  | .prepareIndex => { st with inv := st.inv.prepare F.prepareOnEmpty, fwd := st.fwd.prepare F.prepareOnEmpty }
  | .flushIndex => { st with inv := st.inv.flush, fwd := st.fwd.flush }
  | .fwdWrite => { st with fwd := st.fwd.flushWrite }
  | .fwdFail => { st with fwd := st.fwd.flushFail }
  | .fwdCommit => { st with fwd := st.fwd.flushCommit }
  | .fwdDrop => { st with fwd := st.fwd.flushDrop }
  | .invWrite => { st with inv := st.inv.flushWrite }
  | .invFail => { st with inv := st.inv.flushFail }
  | .invCommit => { st with inv := st.inv.flushCommit }
  | .invDrop => { st with inv := st.inv.flushDrop }
  | .compactIndex => { st with inv := st.inv.compact, fwd := st.fwd.compact F.lutCumulative }

/-! ### tagValuesLookup -/

/-- the key under which an atomic filter's result is stored in `TagFilterResult` -/
def sameKey (F : Flags) (a b : Atom) : Bool :=
  if F.keyByRewrite then a.rewrite == b.rewrite else a == b

/-- `TagFilterResult`: Go map, modelled as an association list under `sameKey` -/
abbrev TFR := List (Atom × (KeyId × List ValId))

def tfrGet (F : Flags) : TFR → Atom → Option (KeyId × List ValId)
  | [], _ => none
  | (b, r) :: t, a => if sameKey F b a then some r else tfrGet F t a

def tfrPut (F : Flags) : TFR → Atom → (KeyId × List ValId) → TFR
  | [], a, r => [(a, r)]
  | (b, r') :: t, a, r => if sameKey F b a then (a, r) :: t else (b, r') :: tfrPut F t a r

/-- one `case stmt.TagFilter` of `findTagValueIDsByExpr`: tag key id from the metric's schema, then
`FindTagValueDsByExpr` -/
def lookupAtom (F : Flags) (M : Matcher) (st : State) (m : Metric) (a : Atom) : Except Err (KeyId × List ValId) :=
  match Map.lookup st.schema (m, a.key) with
  | none => .error .keyNotFound
  | some kid =>
    match resolveAtom F M st.dict kid a with
    | .ok ids => .ok (kid, ids)
    | .error e => .error e

/-- `findTagValueIDsByExpr` (the first error stops the walk) -/
def lookupAll (F : Flags) (M : Matcher) (st : State) (m : Metric) : Expr → TFR → Except Err TFR
  | .atom a, acc =>
    match lookupAtom F M st m a with
    | .ok r => .ok (tfrPut F acc a r)
    | .error e => .error e
  | .paren e, acc => lookupAll F M st m e acc
  | .not e, acc => lookupAll F M st m e acc
  | .and l r, acc =>
    match lookupAll F M st m l acc with
    | .ok acc' => lookupAll F M st m r acc'
    | .error e => .error e
  | .or l r, acc =>
    match lookupAll F M st m l acc with
    | .ok acc' => lookupAll F M st m r acc'
    | .error e => .error e
  | .badop _ _, _ => .error .badOperator

/-! ### seriesFiltering -/

/-- `findSeriesIDsByExpr`: returns (tag key id, series ids); `not` takes the key id its operand
returned, every compound form returns key id 0 -/
def filterExpr (F : Flags) (st : State) (res : TFR) : Expr → Except Err (KeyId × List SeriesId)
  | .atom a =>
    match tfrGet F res a with
    | none => .error .filterResultNotFound
    | some (kid, ids) => .ok (kid, st.inv.seriesOfIds ids)
  | .paren e => filterExpr F st res e
  | .not e =>
    match filterExpr F st res e with
    | .ok (kid, matched) => .ok (0, (st.fwd.seriesForTag kid).filter (fun s => !matched.contains s))
    | .error e => .error e
  | .and l r =>
    match filterExpr F st res l with
    | .ok (_, a) =>
      match filterExpr F st res r with
      | .ok (_, b) => .ok (0, a.filter (fun s => b.contains s))
      | .error e => .error e
    | .error e => .error e
  | .or l r =>
    match filterExpr F st res l with
    | .ok (_, a) =>
      match filterExpr F st res r with
      | .ok (_, b) => .ok (0, a ++ b)
      | .error e => .error e
    | .error e => .error e
  | .badop l r =>
    match filterExpr F st res l with
    | .ok (_, a) =>
      match filterExpr F st res r with
      | .ok (_, b) => .ok (0, a ++ b)
      | .error e => .error e
    | .error e => .error e

/-- `metadataLookup`: the metric must exist -/
def metricKnown (st : State) (m : Metric) : Bool :=
  st.series.any (fun e => e.1.1 == m)

/-- metadata lookup, tag values lookup, series filtering -/
def query (F : Flags) (M : Matcher) (st : State) (m : Metric) (c : Expr) : Except Err (List SeriesId) :=
  if !metricKnown st m then .error .metricNotFound
  else
    match lookupAll F M st m c [] with
    | .error e => .error e
    | .ok res =>
      match filterExpr F st res c with
      | .ok (_, s) => .ok s
      | .error e => .error e

/-! ### grouping (forwardIndex.GetGroupingContext, flow/grouping.go) -/

/-- a grouping scanner: its series ids and `GetSeriesAndTagValue(highKey)` -/
inductive Scanner
  | mem (entries : List (SeriesId × ValId))          -- memGroupingScanner over one memory table's entry
  | file (cs : List Container)                        -- tagForwardReader
  deriving Repr

def Scanner.seriesIDs : Scanner → List SeriesId
  | .mem es => es.map (·.1)
  | .file cs => cs.flatMap (fun c => (containerEntries c).map (·.1))

/-- `GetSeriesAndTagValue(highKey)` as (series id, value id) pairs of that container -/
def Scanner.read (cum : Bool) (high : Nat) : Scanner → List (SeriesId × ValId)
  | .mem es => es.filter (fun e => e.1 / 65536 == high)
  | .file cs => ((readContainer cum cs high).getD []).map (fun lv => (high * 65536 + lv.1, lv.2))

def memEntry (p : FwdPart) (kid : KeyId) : List (SeriesId × ValId) :=
  (p.filter (fun e => e.1 == kid)).map (·.2)

/-- `getGroupingScanners`: memory tables that hold the key and intersect the selected series, then
every file entry for the key that intersects them -/
def groupingScanners (d : Fwd) (kid : KeyId) (sel : List SeriesId) : List Scanner :=
  let mems := ([d.mtb] ++ (match d.imm with | some p => [p] | none => [])).filterMap (fun p =>
    let es := memEntry p kid
    if es.isEmpty then none
    else if es.any (fun e => sel.contains e.1) then some (Scanner.mem es) else none)
  let files := d.files.flatMap (fun f => (f.filter (fun kc => kc.1 == kid)).filterMap (fun kc =>
    let sc := Scanner.file kc.2
    if sc.seriesIDs.any (fun s => sel.contains s) then some sc else none))
  mems ++ files

/-- `GetGroupingContext`, the loop over the group-by keys: per key the scanners; the selected series
are narrowed to those some scanner of every key holds; `ErrNotFound` as soon as none is left -/
def groupingLoop (d : Fwd) (sel : List SeriesId) : List KeyId → List SeriesId →
    Except Err (List SeriesId × List (List Scanner))
  | [], final => .ok (final, [])
  | kid :: ks, final =>
    let sc := groupingScanners d kid sel
    let cur := sc.flatMap Scanner.seriesIDs
    let final' := final.filter (fun s => cur.contains s)
    if final'.isEmpty then .error .notFound
    else
      match groupingLoop d sel ks final' with
      | .ok (f, scs) => .ok (f, sc :: scs)
      | .error e => .error e

def groupingContext (d : Fwd) (kids : List KeyId) (sel : List SeriesId) :
    Except Err (List SeriesId × List (List Scanner)) :=
  groupingLoop d sel kids sel

/-- `BuildGroup` for one series and one key: the value id written last by a scanner of the key that
holds the series (the slot stays 0 when none does) -/
def valueIdOf (cum : Bool) (sc : List Scanner) (s : SeriesId) : ValId :=
  ((sc.flatMap (fun x => (x.read cum (s / 65536)).filter (fun e => e.1 == s))).getLast?.map (·.2)).getD 0

/-- the grouping values of one series: per key the value id and its string (`CollectTagValues`) -/
def valuesFor (cum : Bool) (d : Dict) (s : SeriesId) : List KeyId → List (List Scanner) → List (ValId × Option Bytes)
  | kid :: ks, sc :: scs => (valueIdOf cum sc s, d.keyOfId kid (valueIdOf cum sc s)) :: valuesFor cum d s ks scs
  | _, _ => []

/-- `metadataLookup.groupBy`: the tag key ids of the group-by keys -/
def lookupKeys (st : State) (m : Metric) : List Bytes → Option (List KeyId)
  | [] => some []
  | k :: t =>
    match Map.lookup st.schema (m, k), lookupKeys st m t with
    | some kid, some r => some (kid :: r)
    | _, _ => none

/-- group-by over the selected series: the narrowed series, each with its grouping values -/
def groupBy (F : Flags) (st : State) (m : Metric) (keys : List Bytes) (sel : List SeriesId) :
    Except Err (List (SeriesId × List (ValId × Option Bytes))) :=
  match lookupKeys st m keys with
  | none => .error .keyNotFound
  | some kids =>
    if sel.isEmpty then .ok []
    else
      match groupingContext st.fwd kids sel with
      | .error e => .error e
      | .ok (final, scs) => .ok (final.map (fun s => (s, valuesFor F.lutCumulative st.dict s kids scs)))

/-! ### reference semantics (DESIGN.md, C10) -/

/-- `like`: a leading and a trailing `*` are wildcards (stripped in that order), every other byte is
literal; the empty pattern isMatch nothing -/
def likeRef (p v : Bytes) : Bool :=
  if p == [] then false
  else
    let lead := p.head? == some star
    let rest := if lead then p.tail else p
    let trail := rest.getLast? == some star
    let core := if trail then rest.dropLast else rest
    match lead, trail with
    | false, false => v == core
    | false, true => core.isPrefixOf v
    | true, false => core.isSuffixOf v
    | true, true => isInfix core v

/-- does the value satisfy the atomic filter -/
def Atom.holdsOn (M : Matcher) : Atom → Bytes → Bool
  | .eq _ v, x => x == v
  | .inn _ vs, x => vs.contains x
  | .like _ p, x => likeRef p x
  | .rx _ p, x => M.isMatch p x

/-- an atomic filter holds for a series iff the series HAS the key and the value isMatch -/
def Atom.eval (M : Matcher) (tags : Tags) (a : Atom) : Bool :=
  tags.any (fun kv => kv.1 == a.key && a.holdsOn M kv.2)

/-- the tag key a `not` refers to: its operand is an atomic filter, possibly parenthesised -/
def Expr.notKey : Expr → Option Bytes
  | .atom a => some a.key
  | .paren e => e.notKey
  | _ => none

/-- reference evaluation. `not e` (e an atomic filter): the series has the key and `e` does not hold.
For operands outside the grammar's shape `not` is classical (never used by the theorems). -/
def Expr.eval (M : Matcher) (tags : Tags) : Expr → Bool
  | .atom a => a.eval M tags
  | .paren e => e.eval M tags
  | .not e =>
    match e.notKey with
    | some k => tags.any (fun kv => kv.1 == k) && !(e.eval M tags)
    | none => !(e.eval M tags)
  | .and l r => l.eval M tags && r.eval M tags
  | .or l r => l.eval M tags || r.eval M tags
  | .badop l r => l.eval M tags || r.eval M tags

/-- the grammar's shape (sql/grammar/SQL.g4 `tagFilterExpr`): `not` only around an atomic filter
(`!=`, `<>`, `not like`, `not in`, `!~`), AND/OR only -/
def Expr.shaped : Expr → Bool
  | .atom _ => true
  | .paren e => e.shaped
  | .not e => e.notKey.isSome && e.shaped
  | .and l r => l.shaped && r.shaped
  | .or l r => l.shaped && r.shaped
  | .badop _ _ => false

/-- the atomic filters of a condition in walk order -/
def Expr.atoms : Expr → List Atom
  | .atom a => [a]
  | .paren e => e.atoms
  | .not e => e.atoms
  | .and l r => l.atoms ++ r.atoms
  | .or l r => l.atoms ++ r.atoms
  | .badop l r => l.atoms ++ r.atoms

end LinVerif.TagFilter

namespace LinVerif.TagFilter

/-- what one leaf query observes: the selected series, and for a group-by query the narrowed series
with their grouping values -/
structure LeafResult where
  series : List SeriesId
  groups : Option (Except Err (List (SeriesId × List (ValId × Option Bytes))))

/-- the operator chain of a leaf query on one shard in execution order: metadata lookup (metric,
group-by keys), tag values lookup, series filtering, grouping context build + grouping tags lookup
(skipped when nothing was selected) -/
def leafQuery (F : Flags) (M : Matcher) (st : State) (m : Metric) (keys : List Bytes) (c : Expr) :
    Except Err LeafResult :=
  if !metricKnown st m then .error .metricNotFound
  else
    match lookupKeys st m keys with
    | none => .error .keyNotFound
    | some _ =>
      match query F M st m c with
      | .error e => .error e
      | .ok sel =>
        if keys.isEmpty then .ok { series := sel, groups := none }
        else .ok { series := sel, groups := some (groupBy F st m keys sel) }

end LinVerif.TagFilter

namespace LinVerif.TagFilter

/-! ### histories: writes with flush / compaction steps placed anywhere between them -/

inductive Op
  | write (m : Metric) (tags : Tags)
  | place (s : Step)
  deriving DecidableEq, Repr

def applyOp (F : Flags) (st : State) : Op → State
  | .write m tags => (write st m tags).1
  | .place s => st.step F s

def run (F : Flags) (ops : List Op) (st : State) : State := ops.foldl (applyOp F) st

/-- the writes of a history, in order -/
def writesOf : List Op → List (Metric × Tags)
  | [] => []
  | .write m t :: r => (m, t) :: writesOf r
  | .place _ :: r => writesOf r

end LinVerif.TagFilter

namespace LinVerif.TagFilter

/-- reference for group-by: position by position the returned string is the series' value of the
grouping key -/
def groupValuesOK (t : Tags) : List Bytes → List (ValId × Option Bytes) → Prop
  | [], [] => True
  | k :: ks, r :: rs => (∃ v, (k, v) ∈ t ∧ r.2 = some v) ∧ groupValuesOK t ks rs
  | _, _ => False

end LinVerif.TagFilter

namespace LinVerif.TagFilter

/-! ### a reader parked across a flush (reader ‖ flusher)

Every read path takes the store's file snapshot and reads its memory tables at two different
instants. `parkedState` is what a reader observes that did the first of the two at `s1`, was
descheduled while other steps ran, and did the second at `s2`. Which one comes first is a code fact
(`ReadOrder`, regenerated: `Generated.C10.*MemFirst`). -/

/-- the yield points: `index.kvstore.afterSnapshot` (equals / in, `getOrCreateValue`: memory and
snapshot are both read before it), `index.kvstore.{regexp,like}.afterSnapshot`,
`index.inverted.afterSnapshot`, `index.forward.afterSnapshot` -/
inductive ParkPoint
  | dictFind | dictScan | inverted | forward
  -- the other snapshot+memory readers: `GetValues`, `CollectKVs`, `Suggest` (dictionary),
  -- `invertedIndex.getSeriesIDs`, `forwardIndex.GetGroupingContext`
  | values | collect | suggest | invGet | grouping
  deriving DecidableEq, Repr

/-- per read path: are the memory tables read BEFORE the file snapshot is taken -/
structure ReadOrder where
  dictScanMemFirst : Bool
  invMemFirst : Bool
  fwdMemFirst : Bool
  valuesMemFirst : Bool := true
  collectMemFirst : Bool := true
  suggestMemFirst : Bool := true
  invGetMemFirst : Bool := true
  groupingMemFirst : Bool := true
  deriving DecidableEq, Repr

def hybridDict (memFirst : Bool) (d1 d2 : Dict) : Dict :=
  if memFirst then { mtb := d1.mtb, imm := d1.imm, l0 := d2.l0, l1 := d2.l1 }
  else { mtb := d2.mtb, imm := d2.imm, l0 := d1.l0, l1 := d1.l1 }

def hybridInv (memFirst : Bool) (d1 d2 : Inv) : Inv :=
  if memFirst then { mtb := d1.mtb, imm := d1.imm, l0 := d2.l0, l1 := d2.l1, phase := d2.phase }
  else { mtb := d2.mtb, imm := d2.imm, l0 := d1.l0, l1 := d1.l1, phase := d2.phase }

def hybridFwd (memFirst : Bool) (d1 d2 : Fwd) : Fwd :=
  if memFirst then { mtb := d1.mtb, imm := d1.imm, l0 := d2.l0, l1 := d2.l1, phase := d2.phase }
  else { mtb := d2.mtb, imm := d2.imm, l0 := d1.l0, l1 := d1.l1, phase := d2.phase }

def ReadOrder.memFirstAt (ro : ReadOrder) : ParkPoint → Bool
  | .dictFind => true
  | .dictScan => ro.dictScanMemFirst
  | .inverted => ro.invMemFirst
  | .forward => ro.fwdMemFirst
  | .values => ro.valuesMemFirst
  | .collect => ro.collectMemFirst
  | .suggest => ro.suggestMemFirst
  | .invGet => ro.invGetMemFirst
  | .grouping => ro.groupingMemFirst

/-- the state observed by a single-read query parked at `pt` from `s1` to `s2` (all its other reads
happen entirely at one instant; under the invariant they do not depend on which) -/
def parkedState (ro : ReadOrder) (pt : ParkPoint) (s1 s2 : State) : State :=
  match pt with
  | .dictFind => { s2 with dict := s1.dict }
  | .dictScan => { s2 with dict := hybridDict ro.dictScanMemFirst s1.dict s2.dict }
  | .inverted => { s2 with inv := hybridInv ro.invMemFirst s1.inv s2.inv }
  | .forward => { s2 with fwd := hybridFwd ro.fwdMemFirst s1.fwd s2.fwd }
  | .values => { s2 with dict := hybridDict ro.valuesMemFirst s1.dict s2.dict }
  | .collect => { s2 with dict := hybridDict ro.collectMemFirst s1.dict s2.dict }
  | .suggest => { s2 with dict := hybridDict ro.suggestMemFirst s1.dict s2.dict }
  | .invGet => { s2 with inv := hybridInv ro.invGetMemFirst s1.inv s2.inv }
  | .grouping => { s2 with fwd := hybridFwd ro.groupingMemFirst s1.fwd s2.fwd }

/-- `GetValues` (`FindTagValueIDsForTag`): every value id of a bucket — the snapshot's bucket, then the
memory tables -/
def Dict.values (d : Dict) (kid : KeyId) : List ValId :=
  ((d.files.flatten ++ d.mtb ++ optList d.imm).filter (fun e => e.1 == kid)).map (·.2.2)

/-- a leaf query whose selection ran on `sSel` and whose group-by part (grouping context / value
strings) observed `sGrp` (a parked `GetGroupingContext` or `CollectKVs`) -/
def leafQuerySplit (F : Flags) (M : Matcher) (sSel sGrp : State) (m : Metric) (keys : List Bytes) (c : Expr) :
    Except Err LeafResult :=
  match leafQuery F M sSel m keys c with
  | .error e => .error e
  | .ok r =>
    if keys.isEmpty then .ok r
    else .ok { series := r.series, groups := some (groupBy F sGrp m keys r.series) }

end LinVerif.TagFilter

namespace LinVerif.TagFilter

/-! ### `like` against an abstract matcher -/

def likeLead (p : Bytes) : Bool := p.head? == some star
def likeTrail (p : Bytes) : Bool := (if likeLead p then p.tail else p).getLast? == some star
/-- the pattern without its leading and trailing wildcard -/
def likeCore (p : Bytes) : Bytes :=
  let rest := if likeLead p then p.tail else p
  if likeTrail p then rest.dropLast else rest

/-- the abstract `like`: the value is the core of the pattern, preceded by anything iff the pattern
starts with `*` and followed by anything iff it ends with `*` -/
def LikeMatch (p v : Bytes) : Prop :=
  p ≠ [] ∧ ∃ pre suf, v = pre ++ likeCore p ++ suf ∧ (likeLead p = false → pre = []) ∧ (likeTrail p = false → suf = [])

end LinVerif.TagFilter

namespace LinVerif.TagFilter

/-! ### trie blocks (index/model/trie_bucket_builder.go)

On disk a dictionary bucket is a sequence of succinct tries ("blocks") of at most `blockSize` keys
(`math.MaxInt16` at flush, `math.MaxUint16` when compaction re-splits merged tries). The dictionary
parts of this model are flat entry lists; `blocksOf` is the split `TrieBucketBuilder.Write` performs,
and reads go block by block (`TrieBucket.GetValue` / `FindValuesByLike` loop over `b.kvs`). -/

/-- `numBlocks := len(keys) / blockSize; if len(keys)%blockSize != 0 { numBlocks++ }` -/
def numBlocks (len bs : Nat) : Nat := len / bs + (if len % bs ≠ 0 then 1 else 0)

/-- the loop of `TrieBucketBuilder.Write`: block `i` = `keys[i*bs : min(i*bs+bs, len)]` -/
def blocksOf {α : Type} (bs : Nat) (l : List α) : List (List α) :=
  (List.range (numBlocks l.length bs)).map (fun i => (l.drop (i * bs)).take bs)

/-- `TrieBucket.GetValue` over the blocks of a bucket: the first block that has the key -/
def blocksFind (blocks : List DictPart) (kid : KeyId) (v : Bytes) : Option ValId :=
  match blocks with
  | [] => none
  | b :: t => match partFind b kid v with
    | some id => some id
    | none => blocksFind t kid v

/-- `TrieBucket.FindValuesByLike` / `FindValuesByRegexp` over the blocks of a bucket -/
def blocksScan (blocks : List DictPart) (kid : KeyId) (pre : Bytes) (check : Bytes → Bool) : List ValId :=
  blocks.flatMap (fun b => (b.filter (fun e => e.1 == kid && pre.isPrefixOf e.2.1 && check e.2.1)).map (·.2.2))

end LinVerif.TagFilter

namespace LinVerif.TagFilter

/-! ### the bucket cache of `indexKVStore` (exact lookups ‖ Flush)

`getOrCreateValue`: memory tables, then the bucket cache, else the bucket of the store's snapshot,
which is cached only if the snapshot is still current (`addBucketCache`). `Flush`:
`flusher.Close()` (file installed in the kv family), then under the write lock: `snapshot = new`,
`immutable = nil`, `bucketCache.Purge()`. -/

structure KVStore where
  mtb : DictPart := []
  imm : Option DictPart := none
  /-- files of the kv family's current version -/
  files : List DictPart := []
  /-- `s.snapshot`: its identity (generation) and the files it shows -/
  snapGen : Nat := 0
  snapFiles : List DictPart := []
  /-- bucket id ↦ the cached `TrieBucket` (its entries) -/
  cache : List (KeyId × DictPart) := []
  deriving Repr

/-- `IndexKVReader.GetBucket`: the entries of bucket `kid` in the given files -/
def bucketOf (files : List DictPart) (kid : KeyId) : DictPart :=
  files.flatten.filter (fun e => e.1 == kid)

/-- the steps of `indexKVStore.Flush` that matter for readers -/
inductive FStep
  | close          -- flusher.Close(): the new file is part of the family's current version
  | swap (purge : Bool)  -- under the write lock: snapshot = new, immutable = nil (and Purge() if `purge`)
  | purge          -- bucketCache.Purge() on its own
  deriving DecidableEq, Repr

/-- the steps of one exact lookup of bucket `kid` that touch shared state (it missed the memory
tables and the cache): take the snapshot, later `addBucketCache` -/
inductive LStep
  | take (kid : KeyId)
  | add (kid : KeyId)
  deriving DecidableEq, Repr

structure LookupCtx where
  taken : Option (Nat × List DictPart) := none
  deriving Repr

def KVStore.fstep (s : KVStore) : FStep → KVStore
  | .close => match s.imm with
    | some p => { s with files := s.files ++ [p] }
    | none => s
  | .swap purge => { s with snapGen := s.snapGen + 1, snapFiles := s.files, imm := none,
                            cache := if purge then [] else s.cache }
  | .purge => { s with cache := [] }

def lstep (sc : KVStore × LookupCtx) : LStep → KVStore × LookupCtx
  | .take _ => (sc.1, { taken := some (sc.1.snapGen, sc.1.snapFiles) })
  | .add kid => match sc.2.taken with
    | some (g, fs) =>
      -- addBucketCache: only while the snapshot the bucket was read from is current
      if g = sc.1.snapGen then ({ sc.1 with cache := sc.1.cache ++ [(kid, bucketOf fs kid)] }, sc.2) else sc
    | none => sc

/-- a step of either party -/
inductive PStep
  | f (s : FStep)
  | l (s : LStep)
  deriving DecidableEq, Repr

def pstep (sc : KVStore × LookupCtx) : PStep → KVStore × LookupCtx
  | .f s => (sc.1.fstep s, sc.2)
  | .l s => lstep sc s

def mergesAux {α : Type} (a : α) (t1 : List α) (rec1 : List α → List (List α)) : List α → List (List α)
  | [] => [a :: t1]
  | b :: t2 => ((rec1 (b :: t2)).map (a :: ·)) ++ ((mergesAux a t1 rec1 t2).map (b :: ·))

/-- all interleavings of two step lists (each keeps its own order) -/
def merges {α : Type} : List α → List α → List (List α)
  | [], l2 => [l2]
  | a :: t1, l2 => mergesAux a t1 (merges t1) l2

/-- the order of the flush steps: purge together with the snapshot swap (true, the source as tied by
`tie_flush_order`) or purge first, outside the lock (false) -/
def flushOrder (purgeAtSwap : Bool) : List FStep :=
  if purgeAtSwap then [.close, .swap true] else [.purge, .close, .swap false]

/-- a later exact lookup (`GetValue`): memory tables, cached bucket, else the snapshot's bucket -/
def KVStore.exactFind (s : KVStore) (kid : KeyId) (v : Bytes) : Option ValId :=
  match partFind s.mtb kid v with
  | some id => some id
  | none =>
    match partFind (optList s.imm) kid v with
    | some id => some id
    | none =>
      match Map.lookup s.cache kid with
      | some b => partFind b kid v
      | none => partFind (bucketOf s.snapFiles kid) kid v

/-! ### dictionary compaction pairs every key with its own id (`TrieBucket.Write`) -/

/-- lexicographic order on byte strings (`bytes.Compare < 0`) -/
def bytesLt : Bytes → Bytes → Bool
  | [], [] => false
  | [], _ :: _ => true
  | _ :: _, [] => false
  | a :: s, b :: t => a < b || (a == b && bytesLt s t)

def insertByKey (e : Bytes × ValId) : List (Bytes × ValId) → List (Bytes × ValId)
  | [] => [e]
  | x :: t => if bytesLt e.1 x.1 then e :: x :: t else x :: insertByKey e t

/-- the prefix iterator over one trie: its (key, `itr.Value()`) pairs in key order -/
def trieIterate (t : List (Bytes × ValId)) : List (Bytes × ValId) :=
  t.foldr insertByKey []

/-- `TrieBucket.Write`, the merge of the small tries: per trie, per iterated key,
`keys = append(keys, k); ids = append(ids, itr.Value())` -/
def mergeTries (ts : List (List (Bytes × ValId))) : List (Bytes × ValId) :=
  ts.flatMap trieIterate

end LinVerif.TagFilter
