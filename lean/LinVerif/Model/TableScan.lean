/-
C02 (round 13): scans of a table file through the CACHED reader (kv/table/reader.go).

A `storeMMapReader` lives in the store-wide table cache: every snapshot, compaction job and rollup job that opens
the same table file gets the same reader object. `Iterator()` is what a scan starts with
(`snapshot.GetReader(f).Iterator()`, `compactJob.makeInputIterator`). The model keeps the iterator OBJECTS
explicit: a scan holds a handle to an object, an object is (file, key position, value index), the three methods
of `storeMMapIterator` move exactly one of the two positions of the object the handle points to.

  Iterator()  HEAD: `return newMMapIterator(r)` = a new object per call  (`Cfg.shared = false`)
              variant: one object per reader, rewound by every call       (`Cfg.shared = true`)
  HasNext()   `it.keyIt.HasNext()`            : kpos < number of keys           (observation, no move)
  Key()       `it.keyIt.Next()`               : yields keys[kpos], kpos++
  Value()     `getBlock(it.idx); it.idx++`    : yields blocks[vidx], vidx++

Ghost: per scan the file it opened and the keys / values handed to it since its `open`.
Core Lean only (linked into lvmodel).
-/
namespace LinVerif.TableScan

/-- a table file: its entries in key order (key, value tokens) -/
abbrev Table := List (Nat × List Nat)

/-- an iterator object: the one a scan built for itself, or the one kept inside the reader of a file -/
inductive Obj where
  | own (scan : Nat)
  | ofReader (file : Nat)
  deriving DecidableEq, Repr

/-- `storeMMapIterator`: reader, keyIt position, idx -/
structure Cursor where
  file : Nat
  kpos : Nat
  vidx : Nat
  deriving DecidableEq, Repr

structure Cfg where
  /-- does `storeMMapReader.Iterator()` hand out one object kept in the reader (rewound per call)? -/
  shared : Bool := false
  deriving DecidableEq, Repr

structure St where
  content : Nat → Table            -- table files are immutable
  it : Obj → Cursor                -- iterator objects
  h : Nat → Option Obj             -- scan ↦ the object its handle points to
  opened : Nat → Nat               -- ghost: the file scan i opened
  keys : Nat → List Nat            -- ghost: keys handed to scan i since its open
  vals : Nat → List (List Nat)     -- ghost: values handed to scan i since its open

def St.init (content : Nat → Table) : St :=
  { content := content, it := fun _ => ⟨0, 0, 0⟩, h := fun _ => none, opened := fun _ => 0,
    keys := fun _ => [], vals := fun _ => [] }

inductive Act where
  | openScan (i f : Nat)   -- scan i: `reader(f).Iterator()`
  | key (i : Nat)          -- scan i: `Key()` after `HasNext()` answered true
  | value (i : Nat)        -- scan i: `Value()`
  deriving DecidableEq, Repr

def Act.scan : Act → Nat
  | .openScan i _ => i
  | .key i => i
  | .value i => i

/-- the object `Iterator()` on the reader of file f returns to scan i -/
def objFor (cfg : Cfg) (i f : Nat) : Obj := if cfg.shared then .ofReader f else .own i

def tableKeys (s : St) (f : Nat) : List Nat := (s.content f).map (·.1)
def tableVals (s : St) (f : Nat) : List (List Nat) := (s.content f).map (·.2)

/-- `HasNext()` of scan i -/
def hasNext (s : St) (i : Nat) : Bool :=
  match s.h i with
  | none => false
  | some o => decide ((s.it o).kpos < (s.content (s.it o).file).length)

def step (cfg : Cfg) (s : St) : Act → Option St
  | .openScan i f =>
    let o := objFor cfg i f
    some { s with it := fun x => if x = o then ⟨f, 0, 0⟩ else s.it x,
                  h := fun j => if j = i then some o else s.h j,
                  opened := fun j => if j = i then f else s.opened j,
                  keys := fun j => if j = i then [] else s.keys j,
                  vals := fun j => if j = i then [] else s.vals j }
  | .key i =>
    match s.h i with
    | none => none
    | some o =>
      let c := s.it o
      match (tableKeys s c.file)[c.kpos]? with
      | none => none     -- HasNext() was false: the callers do not call Key()
      | some k =>
        some { s with it := fun x => if x = o then { c with kpos := c.kpos + 1 } else s.it x,
                      keys := fun j => if j = i then s.keys i ++ [k] else s.keys j }
  | .value i =>
    match s.h i with
    | none => none
    | some o =>
      let c := s.it o
      match (tableVals s c.file)[c.vidx]? with
      | none => none
      | some v =>
        some { s with it := fun x => if x = o then { c with vidx := c.vidx + 1 } else s.it x,
                      vals := fun j => if j = i then s.vals i ++ [v] else s.vals j }

/-- run a schedule (any interleaving of the scans' steps); `none` when a step is not enabled -/
def run (cfg : Cfg) (s : St) : List Act → Option St
  | [] => some s
  | a :: rest => match step cfg s a with
    | none => none
    | some s' => run cfg s' rest

inductive Reachable (cfg : Cfg) (content : Nat → Table) : St → Prop
  | init : Reachable cfg content (St.init content)
  | step {s s' : St} (a : Act) : Reachable cfg content s → step cfg s a = some s' → Reachable cfg content s'

/-- what the driver prints for the next entry of scan i: key and value of one `HasNext/Key/Value` round -/
def nextEntry (cfg : Cfg) (s : St) (i : Nat) : Option (St × Nat × List Nat) :=
  if hasNext s i then
    match step cfg s (.key i) with
    | none => none
    | some s1 =>
      match step cfg s1 (.value i) with
      | none => none
      | some s2 =>
        match (s2.keys i).getLast?, (s2.vals i).getLast? with
        | some k, some v => some (s2, k, v)
        | _, _ => none
  else none

end LinVerif.TableScan
