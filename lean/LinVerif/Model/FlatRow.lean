/-
C16 — executable model of the flat ingestion path (core Lean only).

Mirrors, branch for branch,
  * series/metric/row_flat_decoder.go   BrokerRowFlatDecoder: resetForNextDecode / DecodeTo / rebuild
                                        (the decoder is pooled: brokerRowFlatDecoderPool)
  * github.com/lindb/common/series      RowBuilder: Reset / AddTag / AddSimpleField /
                                        AddCompoundFieldData / AddCompoundFieldMMSC / AddMetricName /
                                        AddTimestamp / AddNameSpace / dedupTagsThenXXHash / Build
  * series/metric/row_readonly.go       NewCompoundFieldIterator (bucket count = min(len bounds, len values))

The decoder and its builder are STATE: what an earlier row (accepted, or rejected at any point of
`rebuild`) left behind is still there when the next row arrives — slots beyond the counters, the
histogram scratch slices, name / namespace / timestamp / mmsc of the builder. `decodeTo` threads that
state; `Props.C16.flat_decode_refines_spec` shows its result is a function of the row alone.

Not modelled: the size prefix / `maxRowLength` / short-read branches of DecodeTo (the harness sends
well-formed blocks), flatbuffers itself, exemplars (the decoder never adds one).
-/
import LinVerif.Model.Row

namespace LinVerif.FlatRow
open LinVerif.Row

/-- a raw flat row as the accessors of `readOnlyRow` present it to `rebuild` -/
structure FRow where
  name : String
  ns : String
  ts : Int
  tags : List Tag
  fields : List SField
  compound : Option Compound
  deriving DecidableEq, Repr

/-- the errors of the flat path, one per `return err` site (in the order they can occur) -/
inductive FErr where
  | tooManyTags | tagKeyTooLong | tagValueTooLong | emptyTag
  | tooManyFields | fieldNameTooLong | fieldTypeUnspecified | fieldInf | fieldNaN | emptyFieldName
  | bucketsLenMismatch | tooFewBuckets | boundsNotIncreasing | lastBoundNotInf | firstBoundNegative
  | bucketInf | bucketNegative | bucketNaN | mmscNegative
  | nameTooLong | nsTooLong | emptyName | noField
  deriving DecidableEq, Repr

/-- request context of the flat path: the common part plus MaxNamespaceLength (only this path checks it) -/
structure FCfg where
  c : Cfg
  maxNs : Nat

/-- Go's `v >= 0` on float64 (false for NaN) -/
def F.ge0 (v : F) : Bool := !v.isNaN && !v.neg

/-! ## RowBuilder -/

/-- commonseries.RowBuilder as far as the decoder uses it. `kvs` / `fields` are the slots below
`kvCount` / `simpleFieldCount`; `staleKvs` / `staleFields` the slots at and beyond the counters
(contents of earlier rows: `Reset` only zeroes the counters). -/
structure RB where
  name : String
  ns : String
  ts : Int
  kvs : List Tag
  staleKvs : List Tag
  fields : List SField
  staleFields : List SField
  cvalues : List F
  cbounds : List F
  cmin : F
  cmax : F
  csum : F
  ccount : F
  deriving Repr

/-- CreateRowBuilder -/
def RB.fresh : RB := ⟨"", "", 0, [], [], [], [], [], [], .num 0, .num 0, .num 0, .num 0⟩

/-- RowBuilder.Reset -/
def RB.reset (b : RB) : RB :=
  { name := "", ns := "", ts := 0
    kvs := [], staleKvs := b.kvs ++ b.staleKvs
    fields := [], staleFields := b.fields ++ b.staleFields
    cvalues := [], cbounds := []
    cmin := .num 0, cmax := .num 0, csum := .num 0, ccount := .num 0 }

/-- RowBuilder.AddTag -/
def RB.addTag (b : RB) (t : Tag) : RB × Option FErr :=
  if t.key = "" ∨ t.value = "" then (b, some .emptyTag)
  else ({ b with kvs := b.kvs ++ [t], staleKvs := b.staleKvs.drop 1 }, none)

/-- the checks of RowBuilder.AddSimpleField, in its order -/
def simpleFieldErr (f : SField) : Option FErr :=
  if f.ftype = 0 then some .fieldTypeUnspecified
  else if f.value.isInf then some .fieldInf
  else if f.value.isNaN then some .fieldNaN
  else if f.name = "" then some .emptyFieldName
  else none

/-- RowBuilder.AddSimpleField: the raw type is stored as sent -/
def RB.addSimpleField (b : RB) (f : SField) : RB × Option FErr :=
  match simpleFieldErr f with
  | some e => (b, some e)
  | none =>
    ({ b with fields := b.fields ++ [{ f with name := sanitizeFieldName f.name }],
              staleFields := b.staleFields.drop 1 }, none)

/-- `bounds[idx] < bounds[idx-1]` for no idx ≥ 1 -/
def nonDecreasing : List F → Bool
  | a :: b :: rest => !(F.lt b a) && nonDecreasing (b :: rest)
  | _ => true

/-- the value loop of AddCompoundFieldData: first failing value, first failing rule -/
def firstValueErr : List F → Option FErr
  | [] => none
  | v :: rest =>
    if v.isInf then some .bucketInf
    else if v.neg then some .bucketNegative
    else if v.isNaN then some .bucketNaN
    else firstValueErr rest

/-- the checks of RowBuilder.AddCompoundFieldData, in its order -/
def bucketsErr (values bounds : List F) : Option FErr :=
  if values.length ≠ bounds.length then some .bucketsLenMismatch
  else if values.length < 2 then some .tooFewBuckets
  else if !nonDecreasing bounds then some .boundsNotIncreasing
  else if !(match bounds.getLast? with | some b => b.isPInf | none => false) then some .lastBoundNotInf
  else if (match bounds.head? with | some b => b.neg | none => false) then some .firstBoundNegative
  else firstValueErr values

/-- RowBuilder.AddCompoundFieldData -/
def RB.addCompoundData (b : RB) (values bounds : List F) : RB × Option FErr :=
  match bucketsErr values bounds with
  | some e => (b, some e)
  | none => ({ b with cvalues := values, cbounds := bounds }, none)

/-- RowBuilder.AddCompoundFieldMMSC: assigns first, checks afterwards -/
def RB.addMMSC (b : RB) (mn mx sm ct : F) : RB × Option FErr :=
  let b' := { b with cmin := mn, cmax := mx, csum := sm, ccount := ct }
  if !(F.ge0 mn && F.ge0 mx && F.ge0 sm && F.ge0 ct) then (b', some .mmscNegative) else (b', none)

/-- RowBuilder.AddMetricName / AddNameSpace / AddTimestamp -/
def RB.addMetricName (b : RB) (n : String) : RB := { b with name := sanitizeName n }
def RB.addNameSpace (b : RB) (n : String) : RB := { b with ns := sanitizeName n }
def RB.addTimestamp (b : RB) (t : Int) : RB := { b with ts := t }

/-- the fast-path scan of dedupTagsThenXXHash: is some key equal to its predecessor? -/
def hasAdjDup : List Tag → Bool
  | a :: b :: rest => (a.key == b.key) || hasAdjDup (b :: rest)
  | _ => false

/-- RowBuilder.dedupTagsThenXXHash on the slots below kvCount: rowKVs.Less compares KEYS ONLY
(`less false`); already sorted ⇒ no sort; no equal neighbours ⇒ no de-duplication; otherwise the
keep-last 2-pointer loop. -/
def flatDedup (sortK : List Tag → List Tag) (kvs : List Tag) : List Tag :=
  if kvs.length < 2 then kvs
  else
    let s := if isSortedBy (less false) kvs then kvs else sortK kvs
    if hasAdjDup s then dedupRuns s else s

/-- RowBuilder.Build: what the built block holds -/
def RB.build (sortK : List Tag → List Tag) (H : String → Nat) (now : Int) (b : RB) :
    RB × Except FErr Stored :=
  if b.name = "" then (b, .error .emptyName)
  else if b.fields.isEmpty && b.cvalues.isEmpty then (b, .error .noField)
  else
    let kvs := flatDedup sortK b.kvs
    let ts := if b.ts = 0 then now else b.ts
    ({ b with kvs := kvs, staleKvs := b.kvs.drop kvs.length ++ b.staleKvs, ts := ts },
     .ok { name := b.name, ns := b.ns, ts := ts, tags := kvs, fields := b.fields,
           compound := if b.cvalues.isEmpty then none
                       else some ⟨b.cmin, b.cmax, b.csum, b.ccount, b.cvalues, b.cbounds⟩,
           hash := H (concatKVs kvs), nameHash := H (b.ns ++ b.name) })

/-! ## the decoder -/

/-- BrokerRowFlatDecoder: the embedded builder and the two histogram scratch slices -/
structure Dec where
  rb : RB
  cvals : List F
  cbnds : List F
  deriving Repr

/-- a decoder that never saw a row -/
def Dec.fresh : Dec := ⟨RB.fresh, [], []⟩

/-- resetForNextDecode -/
def Dec.resetForNextDecode (d : Dec) : Dec := ⟨d.rb.reset, [], []⟩

/-- rebuild, tag loop: length limits (row tags only), then AddTag -/
def addRowTags (l : Limits) : RB → List Tag → RB × Option FErr
  | b, [] => (b, none)
  | b, t :: rest =>
    if over l.maxTagKey (blen t.key) then (b, some .tagKeyTooLong)
    else if over l.maxTagVal (blen t.value) then (b, some .tagValueTooLong)
    else match b.addTag t with
      | (b', some e) => (b', some e)
      | (b', none) => addRowTags l b' rest

/-- rebuild, enriched tags: AddTag only (no length limits) -/
def addEnriched : RB → List Tag → RB × Option FErr
  | b, [] => (b, none)
  | b, t :: rest =>
    match b.addTag t with
    | (b', some e) => (b', some e)
    | (b', none) => addEnriched b' rest

/-- rebuild, simple-field loop: name-length limit, then AddSimpleField -/
def addFields (l : Limits) : RB → List SField → RB × Option FErr
  | b, [] => (b, none)
  | b, f :: rest =>
    if over l.maxField (blen f.name) then (b, some .fieldNameTooLong)
    else match b.addSimpleField f with
      | (b', some e) => (b', some e)
      | (b', none) => addFields l b' rest

/-- rebuild, compound part: the buckets are APPENDED to the scratch slices (which resetForNextDecode
truncated), then handed to the builder -/
def Dec.addCompound (d : Dec) (c : Compound) : Dec × Option FErr :=
  let num := min c.bounds.length c.values.length
  let bn := d.cbnds ++ c.bounds.take num
  let vs := d.cvals ++ c.values.take num
  match d.rb.addCompoundData vs bn with
  | (rb, some e) => (⟨rb, vs, bn⟩, some e)
  | (rb, none) =>
    match rb.addMMSC c.min c.max c.sum c.count with
    | (rb', e) => (⟨rb', vs, bn⟩, e)

/-- the namespace `rebuild` uses: the row's own, the request's when the row has none -/
def nsOf (fc : FCfg) (r : FRow) : String := if r.ns = "" then fc.c.reqNs else r.ns

/-- BrokerRowFlatDecoder.rebuild, first half (works on the builder only): tag-count limit, row tags,
enriched tags, field-count limit, simple fields -/
def rebuildA (fc : FCfg) (b : RB) (r : FRow) : RB × Option FErr :=
  let l := fc.c.limits
  if over l.maxTags (r.tags.length + fc.c.enriched.length) then (b, some .tooManyTags)
  else match addRowTags l b r.tags with
  | (b1, some e) => (b1, some e)
  | (b1, none) =>
    match addEnriched b1 fc.c.enriched with
    | (b2, some e) => (b2, some e)
    | (b2, none) =>
      if over l.maxFields r.fields.length then (b2, some .tooManyFields)
      else addFields l b2 r.fields

/-- BrokerRowFlatDecoder.rebuild, second half: compound field, then (label `End`) metric-name limit,
AddMetricName, AddTimestamp, namespace fallback + limit, AddNameSpace -/
def rebuildB (fc : FCfg) (d : Dec) (r : FRow) : Dec × Option FErr :=
  let l := fc.c.limits
  match (match r.compound with
         | none => (d, (none : Option FErr))
         | some c => d.addCompound c) with
  | (d2, some e) => (d2, some e)
  | (d2, none) =>
    if over l.maxName (blen r.name) then (d2, some .nameTooLong)
    else
      let rb2 := (d2.rb.addMetricName r.name).addTimestamp r.ts
      if over fc.maxNs (blen (nsOf fc r)) then ({ d2 with rb := rb2 }, some .nsTooLong)
      else ({ d2 with rb := rb2.addNameSpace (nsOf fc r) }, none)

/-- BrokerRowFlatDecoder.rebuild -/
def rebuild (fc : FCfg) (d : Dec) (r : FRow) : Dec × Option FErr :=
  match rebuildA fc d.rb r with
  | (rb, some e) => ({ d with rb := rb }, some e)
  | (rb, none) => rebuildB fc { d with rb := rb } r

/-- BrokerRowFlatDecoder.DecodeTo (after the block has been read): new decoder state, and the row
`FromBlock` receives or the error TryAppend gets -/
def decodeTo (fc : FCfg) (sortK : List Tag → List Tag) (H : String → Nat) (d : Dec) (r : FRow) :
    Dec × Except FErr Stored :=
  let d0 := d.resetForNextDecode
  match rebuild fc d0 r with
  | (d1, some e) => (d1, .error e)
  | (d1, none) =>
    match d1.rb.build sortK H fc.c.now with
    | (rb, res) => ({ d1 with rb := rb }, res)

/-- parseFlatMetric: one decoder for the whole request; every row through DecodeTo -/
def decodeStream (fc : FCfg) (sortK : List Tag → List Tag) (H : String → Nat) :
    Dec → List FRow → Dec × List (Except FErr Stored)
  | d, [] => (d, [])
  | d, r :: rest =>
    match decodeTo fc sortK H d r with
    | (d', res) =>
      match decodeStream fc sortK H d' rest with
      | (d'', out) => (d'', res :: out)

/-! ## the same, without state: what a row is decoded to -/

/-- tag loop of `rebuild`, errors only -/
def firstTagErr (l : Limits) : List Tag → Option FErr
  | [] => none
  | t :: rest =>
    if over l.maxTagKey (blen t.key) then some .tagKeyTooLong
    else if over l.maxTagVal (blen t.value) then some .tagValueTooLong
    else if t.key = "" ∨ t.value = "" then some .emptyTag
    else firstTagErr l rest

def firstEnrichedErr : List Tag → Option FErr
  | [] => none
  | t :: rest => if t.key = "" ∨ t.value = "" then some .emptyTag else firstEnrichedErr rest

def firstFieldErr (l : Limits) : List SField → Option FErr
  | [] => none
  | f :: rest =>
    if over l.maxField (blen f.name) then some .fieldNameTooLong
    else match simpleFieldErr f with
      | some e => some e
      | none => firstFieldErr l rest

/-- the buckets NewCompoundFieldIterator hands out -/
def bucketsOf (c : Compound) : List F × List F :=
  let num := min c.bounds.length c.values.length
  (c.values.take num, c.bounds.take num)

def compoundErr : Option Compound → Option FErr
  | none => none
  | some c =>
    match bucketsErr (bucketsOf c).1 (bucketsOf c).2 with
    | some e => some e
    | none => if !(F.ge0 c.min && F.ge0 c.max && F.ge0 c.sum && F.ge0 c.count) then some .mmscNegative else none

/-- the stored compound field -/
def compoundOf : Option Compound → Option Compound
  | none => none
  | some c => some ⟨c.min, c.max, c.sum, c.count, (bucketsOf c).1, (bucketsOf c).2⟩

/-- the error of `rebuild`, as a function of the row: first failing rule in the order of the code -/
def rebuildErr (fc : FCfg) (r : FRow) : Option FErr :=
  let l := fc.c.limits
  if over l.maxTags (r.tags.length + fc.c.enriched.length) then some .tooManyTags
  else match firstTagErr l r.tags with
  | some e => some e
  | none =>
    match firstEnrichedErr fc.c.enriched with
    | some e => some e
    | none =>
      if over l.maxFields r.fields.length then some .tooManyFields
      else match firstFieldErr l r.fields with
      | some e => some e
      | none =>
        match compoundErr r.compound with
        | some e => some e
        | none =>
          if over l.maxName (blen r.name) then some .nameTooLong
          else if over fc.maxNs (blen (nsOf fc r)) then some .nsTooLong
          else none

/-- **the flat path as a function of the row**: the rules of `rebuild`, then those of `Build` -/
def flatSpec (fc : FCfg) (sortK : List Tag → List Tag) (H : String → Nat) (r : FRow) : Except FErr Stored :=
  match rebuildErr fc r with
  | some e => .error e
  | none =>
    if sanitizeName r.name = "" then .error .emptyName
    else if r.fields.isEmpty && r.compound.isNone then .error .noField
    else
      let kvs := flatDedup sortK (r.tags ++ fc.c.enriched)
      .ok { name := sanitizeName r.name, ns := sanitizeName (nsOf fc r),
            ts := if r.ts = 0 then fc.c.now else r.ts,
            tags := kvs,
            fields := r.fields.map (fun f => { f with name := sanitizeFieldName f.name }),
            compound := compoundOf r.compound,
            hash := H (concatKVs kvs),
            nameHash := H (sanitizeName (nsOf fc r) ++ sanitizeName r.name) }

end LinVerif.FlatRow
