/-
C16 — the protobuf converter as a pooled STATE machine (core Lean only).

Mirrors series/metric/row_proto_converter.go:
  * BrokerRowProtoConverter           the offset slices keys/values, kvs, fieldNames, fields; namespace,
                                      enrichedTags, hashBuf, limits (flatBuilder.Reset() is flatbuffers' own)
  * Reset / resetForNextConverter     truncate the slices; Reset also truncates namespace / enrichedTags
  * NewBrokerRowProtoConverter        rowConverterPool.Get (a converter an earlier request released, in
                                      whatever state it was left) → Reset → assign namespace / enriched / limits
  * MarshalProtoMetricV1              resetForNextConverter, validateMetric (an error returns here, the slices
                                      stay as they are), deDupTags, the four append loops, hashOfName
                                      (hashBuf.Reset, write namespace, write name), the vectors are built from
                                      the SLICES (`rc.kvs`, `rc.fields`), the field names are read back by
                                      index from `rc.fieldNames`
A flat-buffer offset is modelled by what it points to (the tag / the field name / the field whose strings
were created), so a slice that is not truncated shows as stale leading entries in the stored row.
`Props.C16.proto_converter_refines_convert` shows the result is `C16Ident.convertF` of the metric alone.
-/
import LinVerif.Model.C16Ident

namespace LinVerif.C16ProtoConv
open LinVerif.Row LinVerif.C16Ident

/-- BrokerRowProtoConverter -/
structure PC where
  keys : List Tag          -- rc.keys / rc.values (appended pairwise)
  kvs : List Tag           -- rc.kvs
  fieldNames : List String -- rc.fieldNames
  fields : List SField     -- rc.fields
  ns : String              -- rc.namespace
  enriched : List Tag      -- rc.enrichedTags
  hashBuf : String         -- rc.hashBuf (contents after the last hashOfName)
  limits : Limits
  deriving Repr

/-- NewProtoConverter -/
def PC.fresh (l : Limits) : PC := ⟨[], [], [], [], "", [], "", l⟩

/-- resetForNextConverter -/
def PC.resetForNext (pc : PC) : PC := { pc with keys := [], kvs := [], fieldNames := [], fields := [] }

/-- Reset -/
def PC.reset (pc : PC) : PC := { pc.resetForNext with ns := "", enriched := [] }

/-- NewBrokerRowProtoConverter on a pooled converter -/
def PC.newFor (pc : PC) (ns : String) (enriched : List Tag) (l : Limits) : PC :=
  { pc.reset with ns := ns, enriched := enriched, limits := l }

/-- the request context validateMetric reads from the converter -/
def PC.cfg (pc : PC) (now : Int) : Cfg := ⟨pc.limits, pc.ns, pc.enriched, now⟩

/-- the simple-field loop of MarshalProtoMetricV1: the i-th field is built with the name offset
`rc.fieldNames[i]`, the mapped type and the value -/
def builtFields (fs : List SField) (names : List String) : List SField :=
  List.zipWith (fun f nm => { name := nm, ftype := mapType f.ftype, value := f.value }) fs names

/-- MarshalProtoMetricV1 / ConvertTo: new converter state and the row FromBlock receives (or the error) -/
def PC.marshal (fn fs : NameFlow) (tb : Bool) (sort : List Tag → List Tag) (H : String → Nat) (now : Int)
    (pc : PC) : Option PMetric → PC × Except Err Stored
  | none => (pc.resetForNext, .error .nilMetric)
  | some m =>
    let pc0 := pc.resetForNext
    match validate (pc0.cfg now) (some m) with
    | .error e => (pc0, .error e)
    | .ok v =>
      let tags := deDupTags sort v.tags
      -- "pre-allocate strings": one (key, value) offset pair per tag of m.Tags
      let pc1 := { pc0 with keys := pc0.keys ++ tags }
      -- "building key values vector": for i < len(rc.keys)
      let pc2 := { pc1 with kvs := pc1.kvs ++ pc1.keys }
      -- field names, one per simple field
      let pc3 := { pc2 with fieldNames := pc2.fieldNames ++ v.fields.map SField.name }
      -- "building field names": for i < len(m.SimpleFields): name = rc.fieldNames[i]
      let pc4 := { pc3 with fields := pc3.fields ++ builtFields v.fields pc3.fieldNames }
      -- hashOfName: Reset, namespace (if not empty), name
      let mName := san fn.inValidate m.name
      let mNs := san fs.inValidate (rawNs (pc0.cfg now) m)
      let pc5 := { pc4 with hashBuf := san fs.atHash mNs ++ san fn.atHash mName }
      (pc5, .ok { name := san fn.atStore mName, ns := san fs.atStore mNs, ts := v.ts,
                  tags := pc5.kvs, fields := pc5.fields, compound := v.compound,
                  hash := kvsHash tb sort H tags, nameHash := H pc5.hashBuf })

/-- parseProtoMetric: every metric of the request through the one converter -/
def PC.marshalAll (fn fs : NameFlow) (tb : Bool) (sort : List Tag → List Tag) (H : String → Nat) (now : Int) :
    PC → List (Option PMetric) → PC × List (Except Err Stored)
  | pc, [] => (pc, [])
  | pc, m :: rest =>
    match pc.marshal fn fs tb sort H now m with
    | (pc', res) =>
      match PC.marshalAll fn fs tb sort H now pc' rest with
      | (pc'', out) => (pc'', res :: out)

/-- one write request -/
structure Req where
  ns : String
  enriched : List Tag
  limits : Limits
  metrics : List (Option PMetric)

def Req.cfg (rq : Req) (now : Int) : Cfg := ⟨rq.limits, rq.ns, rq.enriched, now⟩

/-- a history of requests on ONE pooled converter: take it (NewBrokerRowProtoConverter), convert the
request's metrics, release it -/
def PC.history (fn fs : NameFlow) (tb : Bool) (sort : List Tag → List Tag) (H : String → Nat) (now : Int) :
    PC → List Req → PC × List (List (Except Err Stored))
  | pc, [] => (pc, [])
  | pc, rq :: rest =>
    match PC.marshalAll fn fs tb sort H now (pc.newFor rq.ns rq.enriched rq.limits) rq.metrics with
    | (pc', out) =>
      match PC.history fn fs tb sort H now pc' rest with
      | (pc'', outs) => (pc'', out :: outs)

end LinVerif.C16ProtoConv
