/-
Layer 2 of the C20 model: the LOUDS-sparse encoding of the layer-1 tree (core Lean only).

`levelsOf` lays the tree out level by level exactly as `builder.buildNodes` fills its `Level`
objects (labels, hasChild bits, louds bits, per-node hasPrefix bits + prefixes, hasSuffix bits +
suffixes, values), `flatten` concatenates the levels like `trie.Init` / `bitVector.Init` /
`compressPathVector.Init` do, and the functions at the end are the navigation formulas of
trie.go (`firstLabelPos`, `childNodeID`, `valuePos`, `nodeSize`, `isEndOfNode`, `Get`) written
over the flat vectors with `rank`/`select`.

Bit vectors are `List Bool` (bit i of the Go `[]uint64` words = element i).
-/
import LinVerif.Model.TrieTree

namespace LinVerif.TrieTree

/-! ### per-node pieces of the encoding -/

def Entries.labels : Entries → List Nat
  | .nil => []
  | .leaf l _ _ r => l :: Entries.labels r
  | .child l _ r => l :: Entries.labels r

def Entries.hasChildBits : Entries → List Bool
  | .nil => []
  | .leaf _ _ _ r => false :: Entries.hasChildBits r
  | .child _ _ r => true :: Entries.hasChildBits r

/-- `setBit(levelObj.lsLouds, nodeStartPos)`: only the first label of a node -/
def Entries.loudsBits (es : Entries) : List Bool :=
  match es.length with
  | 0 => []
  | n + 1 => true :: List.replicate n false

/-- suffix of every label (`[]` for child labels and for leaves without suffix) -/
def Entries.suffixAll : Entries → List (List Nat)
  | .nil => []
  | .leaf _ s _ r => s :: Entries.suffixAll r
  | .child _ _ r => [] :: Entries.suffixAll r

def Entries.values : Entries → List Nat
  | .nil => []
  | .leaf _ _ v r => v :: Entries.values r
  | .child _ _ r => Entries.values r

def Entries.children : Entries → List Node
  | .nil => []
  | .leaf _ _ _ r => Entries.children r
  | .child _ n r => n :: Entries.children r

mutual
  def Node.height : Node → Nat
    | .mk _ es => Entries.height es + 1
  def Entries.height : Entries → Nat
    | .nil => 0
    | .leaf _ _ _ r => Entries.height r
    | .child _ n r => max (Node.height n) (Entries.height r)
end

end LinVerif.TrieTree

namespace LinVerif.Louds
open LinVerif.TrieTree

/-! ### constants of bits.go / rank.go / select.go -/

def wordSize : Nat := 64
def rankSparseBlockSize : Nat := 512
def selectSampleInterval : Nat := 64

/-! ### rank / select / distance on bit vectors -/

def popcount (bs : List Bool) : Nat := bs.count true

/-- `rankVectorSparse.Rank(pos)`: number of set bits in `[0, pos]` (inclusive) -/
def rank (bs : List Bool) (pos : Nat) : Nat := popcount (bs.take (pos + 1))

/-- `selectVector.Select(k)`: position of the k-th set bit, k is one-based -/
def select : List Bool → Nat → Nat
  | [], _ => 0
  | true :: bs, k => if k ≤ 1 then 0 else 1 + select bs (k - 1)
  | false :: bs, k => 1 + select bs k

/-- number of clear bits from the front -/
def leadingZeros : List Bool → Nat
  | false :: bs => 1 + leadingZeros bs
  | _ => 0

/-- `bitVector.DistanceToNextSetBit(pos)`: distance from `pos` to the next set bit after it, or
to the end of the vector; `0` through the early exit `wordOff >= len(v.bits)`. -/
def distNext (bs : List Bool) (pos : Nat) : Nat :=
  if (pos + 1) / wordSize ≥ (bs.length + wordSize - 1) / wordSize then 0
  else 1 + leadingZeros (bs.drop (pos + 1))

/-- `rankVector.init`: `rankLut[i]` = set bits before block i, `numBits/blockSize + 1` entries -/
def rankLut (bs : List Bool) : List Nat :=
  (List.range (bs.length / rankSparseBlockSize + 1)).map
    (fun i => popcount (bs.take (i * rankSparseBlockSize)))

/-- `rankVectorSparse.Rank` as written: table entry + popcount inside the block
(`lut` = the table computed once by `init`, i.e. `rankLut bs`) -/
def rankGo (lut : List Nat) (bs : List Bool) (pos : Nat) : Nat :=
  let blockOff := pos / rankSparseBlockSize
  let bitsOff := pos % rankSparseBlockSize
  lut.getD blockOff 0 + popcount ((bs.drop (blockOff * rankSparseBlockSize)).take (bitsOff + 1))

/-- `selectVector.Init`: entry 0 is 0, entry j the position of the (64·j)-th set bit -/
def selectLut (bs : List Bool) : List Nat :=
  0 :: (List.range (popcount bs / selectSampleInterval)).map
    (fun j => select bs ((j + 1) * selectSampleInterval))

/-- position of the k-th set bit at index ≥ start (k one-based) -/
def selectFrom (bs : List Bool) (start k : Nat) : Nat := start + select (bs.drop start) k

/-- `selectVector.Select` as written: sampled position, then scan for the remaining ones
(`lut` = `selectLut bs`; `lutIdx == 0` relies on bit 0 being set: `rankLeft--`.) -/
def selectGo (lut : List Nat) (bs : List Bool) (k : Nat) : Nat :=
  let lutIdx := k / selectSampleInterval
  let rankLeft := if lutIdx == 0 then k % selectSampleInterval - 1 else k % selectSampleInterval
  let pos := lut.getD lutIdx 0
  if rankLeft == 0 then pos else selectFrom bs (pos + 1) rankLeft

/-! ### one level of the builder -/

structure Level where
  labels : List Nat
  hasChild : List Bool
  louds : List Bool
  hasPrefix : List Bool          -- one bit per node
  prefixes : List (List Nat)     -- only the non-empty ones
  hasSuffix : List Bool
  suffixes : List (List Nat)     -- only the non-empty ones
  values : List Nat
  deriving Repr

def nonEmpty (l : List Nat) : Bool := !l.isEmpty

/-- what one pass of `buildNodes` calls at one `level` leave in `b.levels[level]` -/
def levelOf (ns : List Node) : Level :=
  let sufs := ns.flatMap (fun n => Entries.suffixAll n.entries)
  { labels := ns.flatMap (fun n => Entries.labels n.entries)
    hasChild := ns.flatMap (fun n => Entries.hasChildBits n.entries)
    louds := ns.flatMap (fun n => Entries.loudsBits n.entries)
    hasPrefix := ns.map (fun n => nonEmpty n.pfx)
    prefixes := (ns.map (fun n => n.pfx)).filter nonEmpty
    hasSuffix := sufs.map nonEmpty
    suffixes := sufs.filter nonEmpty
    values := ns.flatMap (fun n => Entries.values n.entries) }

/-- the nodes of the next level, left to right -/
def childrenOf (ns : List Node) : List Node := ns.flatMap (fun n => Entries.children n.entries)


/-- the nodes level by level (`fuel` ≥ height) -/
def nodeLevels : Nat → List Node → List (List Node)
  | 0, _ => []
  | _ + 1, [] => []
  | fuel + 1, n :: ns => (n :: ns) :: nodeLevels fuel (childrenOf (n :: ns))

def levelsOf (t : Node) : List Level := (nodeLevels t.height [t]).map levelOf

/-! ### the flat vectors of `trie` -/

structure Flat where
  height : Nat
  labels : List Nat
  hasChild : List Bool
  louds : List Bool
  hasPrefix : List Bool
  prefixes : List (List Nat)
  hasSuffix : List Bool
  suffixes : List (List Nat)
  values : List Nat
  hasChildLut : List Nat         -- rankLut of hasChild
  loudsLut : List Nat            -- selectLut of louds
  hasPrefixLut : List Nat
  hasSuffixLut : List Nat
  deriving Repr

/-- `trie.Init(builder)`: every vector is the concatenation of the per-level vectors -/
def flatten (ls : List Level) : Flat :=
  let hasChild := ls.flatMap (·.hasChild)
  let louds := ls.flatMap (·.louds)
  let hasPrefix := ls.flatMap (·.hasPrefix)
  let hasSuffix := ls.flatMap (·.hasSuffix)
  { height := ls.length
    labels := ls.flatMap (·.labels)
    hasChild := hasChild
    louds := louds
    hasPrefix := hasPrefix
    prefixes := ls.flatMap (·.prefixes)
    hasSuffix := hasSuffix
    suffixes := ls.flatMap (·.suffixes)
    values := ls.flatMap (·.values)
    hasChildLut := rankLut hasChild
    loudsLut := selectLut louds
    hasPrefixLut := rankLut hasPrefix
    hasSuffixLut := rankLut hasSuffix }

def encode (t : Node) : Flat := flatten (levelsOf t)

/-- `compressPathVector.Init`: offsets of the stored paths inside `data` -/
def pathOffsets : Nat → List (List Nat) → List Nat
  | _, [] => []
  | off, p :: ps => off :: pathOffsets (off + p.length) ps

def pathData (ps : List (List Nat)) : List Nat := ps.flatMap id

/-! ### navigation (trie.go) -/

/-- `firstLabelPos(nodeID) = loudsVec.Select(nodeID + 1)` -/
def firstLabelPos (f : Flat) (nodeID : Nat) : Nat := selectGo f.loudsLut f.louds (nodeID + 1)

/-- `childNodeID(pos) = hasChildVec.Rank(pos)` -/
def childNodeID (f : Flat) (pos : Nat) : Nat := rankGo f.hasChildLut f.hasChild pos

/-- `valuePos(pos) = pos - hasChildVec.Rank(pos)` -/
def valuePos (f : Flat) (pos : Nat) : Nat := pos - rankGo f.hasChildLut f.hasChild pos

/-- `nodeSize(pos) = loudsVec.DistanceToNextSetBit(pos)` -/
def nodeSize (f : Flat) (pos : Nat) : Nat := distNext f.louds pos

/-- `isEndOfNode(pos)` -/
def isEndOfNode (f : Flat) (pos : Nat) : Bool :=
  pos == f.louds.length - 1 || f.louds.getD (pos + 1) false

/-- `compressPathVector.GetPath(id)` -/
def getPath (lut : List Nat) (bits : List Bool) (paths : List (List Nat)) (id : Nat) : List Nat :=
  if bits.getD id false then paths.getD (rankGo lut bits id - 1) [] else []

def prefixOf (f : Flat) (nodeID : Nat) : List Nat := getPath f.hasPrefixLut f.hasPrefix f.prefixes nodeID
def suffixOf (f : Flat) (pos : Nat) : List Nat := getPath f.hasSuffixLut f.hasSuffix f.suffixes pos

/-- `bytes.IndexByte(labels[start:end], k)` as an absolute position -/
def indexFrom (labels : List Nat) (c : Nat) : Nat → Nat → Option Nat
  | _, 0 => none
  | start, n + 1 =>
    match labels[start]? with
    | none => none
    | some l => if l == c then some start else indexFrom labels c (start + 1) n

/-- `labelVector.Search(k, off, size)` -/
def searchLabel (labels : List Nat) (c off size : Nat) : Option Nat :=
  if size > 1 && labels.getD off 0 == labelTerminator then indexFrom labels c (off + 1) (size - 1)
  else indexFrom labels c off size

/-- `trie.Get` over the flat vectors; `fuel` bounds the number of levels walked; `eon` as in
`TrieTree.getNode` -/
def lget (eon : Bool) (f : Flat) : Nat → Nat → Key → Option Nat
  | 0, _, _ => none
  | fuel + 1, nodeID, key =>
    let pos := firstLabelPos f nodeID
    match stripPrefix (prefixOf f nodeID) key with
    | none => none
    | some [] =>
      if f.labels.getD pos 0 == labelTerminator && !f.hasChild.getD pos false
          && (!eon || !isEndOfNode f pos) then
        (if (suffixOf f pos).isEmpty then f.values[valuePos f pos]? else none)
      else none
    | some (c :: rest) =>
      match searchLabel f.labels c pos (nodeSize f pos) with
      | none => none
      | some p =>
        if !f.hasChild.getD p false then
          (if suffixOf f p == rest then f.values[valuePos f p]? else none)
        else lget eon f fuel (childNodeID f p) rest

/-- `Get(key)` on the encoded trie (every level walked consumes at least one key byte:
`for depth = 0; depth < len(key); depth++`) -/
def loudsGet (eon : Bool) (f : Flat) (key : Key) : Option Nat := lget eon f (key.length + 1) 0 key

/-- in-order walk over the flat vectors with the same position formulas the iterator uses
(`firstLabelPos`, `nodeSize`, `childNodeID`, `valuePos`, `isEndOfNode`, prefix/suffix lookup);
the iterator's explicit stack is replaced by recursion. -/
def literNode (f : Flat) : Nat → Nat → Key → List KV
  | 0, _, _ => []
  | fuel + 1, nodeID, path =>
    let pos0 := firstLabelPos f nodeID
    let base := path ++ prefixOf f nodeID
    (List.range (nodeSize f pos0)).flatMap (fun i =>
      let pos := pos0 + i
      let l := f.labels.getD pos 0
      if f.hasChild.getD pos false then literNode f fuel (childNodeID f pos) (base ++ [l])
      else
        let v := f.values.getD (valuePos f pos) 0
        if l == labelTerminator && !isEndOfNode f pos then [(base ++ suffixOf f pos, v)]
        else [(base ++ l :: suffixOf f pos, v)])

def loudsIter (f : Flat) : List KV := literNode f f.height 0 []

end LinVerif.Louds
