/-
Byte-exact model of pkg/bit/writer.go and pkg/bit/reader.go (+ pkg/bufioutil/buffer.go)
(core Lean only).

`Writer.out` is the content of the `io.Writer` the bit writer appends to (always a
`bytes.Buffer` in lindb, whose `Write` never returns an error: the `err` results of the
writer methods are therefore always nil and are not modelled).
`Writer.count` is the `uint8` number of free bits of the current byte; `Reset` sets it to 8 and
every method keeps it in `1..8` (theorem `Writer.ok_*` in Lemmas/C14Bits), so the `uint8`
wrap-around of `count-1` at 0 is unreachable.
-/
import LinVerif.Model.Varint

namespace LinVerif.Bits
open LinVerif.Varint (two64)

structure Writer where
  out : List Nat
  cur : Nat
  count : Nat
  deriving DecidableEq, Repr

/-- `NewWriter(w)` = `Reset(w)` on an empty buffer -/
def Writer.fresh : Writer := { out := [], cur := 0, count := 8 }

/-- `Writer.Reset(writer)`: `w.w = writer; w.b[0] = 0; w.count = 8` (`out` = content of the new target) -/
def Writer.reset (_w : Writer) (out : List Nat) : Writer := { out := out, cur := 0, count := 8 }

/-- `WriteBit` -/
def Writer.writeBit (w : Writer) (bit : Bool) : Writer :=
  let cur := if bit then w.cur ||| (1 <<< (w.count - 1)) else w.cur
  let count := w.count - 1
  if count = 0 then { out := w.out ++ [cur], cur := 0, count := 8 }
  else { out := w.out, cur := cur, count := count }

/-- `WriteByte`: `w.b[0] |= b >> (8 - w.count)`; write; `w.b[0] = b << w.count` (byte arithmetic) -/
def Writer.writeByte (w : Writer) (b : Nat) : Writer :=
  let c := w.cur ||| (b >>> (8 - w.count))
  { out := w.out ++ [c], cur := (b <<< w.count) % 256, count := w.count }

/-- first loop of `WriteBits`: `k` whole bytes taken from the top of the 64-bit word `u` -/
def Writer.writeTopBytes (w : Writer) (u : Nat) : Nat → Writer × Nat
  | 0 => (w, u)
  | k + 1 => Writer.writeTopBytes (w.writeByte (u >>> 56)) ((u <<< 8) % two64) k

/-- second loop of `WriteBits`: `k` single bits taken from the top of `u` -/
def Writer.writeTopBits (w : Writer) (u : Nat) : Nat → Writer
  | 0 => w
  | k + 1 => Writer.writeTopBits (w.writeBit ((u >>> 63) == 1)) ((u <<< 1) % two64) k

/-- `WriteBits(u, numBits)` for `numBits ≥ 0`: `u <<= 64 - uint(numBits)` (a shift count ≥ 64,
which is what `64 - uint(numBits)` wraps to for `numBits > 64`, yields 0), then whole bytes,
then single bits. -/
def Writer.writeBits (w : Writer) (u : Nat) (n : Nat) : Writer :=
  let u0 := if n > 64 then 0 else ((u % two64) <<< (64 - n)) % two64
  let (w1, u1) := w.writeTopBytes u0 (n / 8)
  w1.writeTopBits u1 (n % 8)

/-- `Flush`: writes the current byte when it holds at least one bit; the state is NOT reset -/
def Writer.flush (w : Writer) : Writer :=
  if w.count ≠ 8 then { w with out := w.out ++ [w.cur] } else w

/-- `bit.Reader` together with the `bufioutil.Buffer` it reads from (`buf`, `idx`);
`err` is the sticky `r.err` (only "index out of range" can occur). -/
structure Reader where
  buf : List Nat
  idx : Nat
  b : Nat
  count : Nat
  err : Bool
  deriving DecidableEq, Repr

/-- `NewReader(bufioutil.NewBuffer(data))` -/
def Reader.fresh (data : List Nat) : Reader := { buf := data, idx := 0, b := 0, count := 0, err := false }

/-- `Reader.Reset()`: `err = nil; count = 0; b = 0` (the buffer position is not touched) -/
def Reader.reset (r : Reader) : Reader := { r with b := 0, count := 0, err := false }

/-- `Buffer.SetBuf(s)` -/
def Reader.setBuf (r : Reader) (data : List Nat) : Reader := { r with buf := data, idx := 0 }
/-- `Buffer.SetIdx(i)` -/
def Reader.setIdx (r : Reader) (i : Nat) : Reader := { r with idx := i }

/-- `r.b, r.err = r.buf.GetByte()` -/
def Reader.getByte (r : Reader) : Reader :=
  match r.buf[r.idx]? with
  | some x => { r with b := x, idx := r.idx + 1, err := false }
  | none => { r with b := 0, err := true }

/-- `ReadBit` → (bit, r.err) -/
def Reader.readBit (r : Reader) : Bool × Bool × Reader :=
  let r1 := if r.count = 0 then { r.getByte with count := 8 } else r
  let d := r1.b &&& 128
  let r2 := { r1 with count := r1.count - 1, b := (r1.b <<< 1) % 256 }
  (d != 0, r2.err, r2)

/-- `ReadByte` → (byte, r.err) -/
def Reader.readByte (r : Reader) : Nat × Bool × Reader :=
  if r.count = 0 then
    let r1 := r.getByte
    (r1.b, r1.err, r1)
  else
    let byt := r.b
    let r1 := r.getByte
    let byt := byt ||| (r1.b >>> r1.count)
    let r2 := { r1 with b := (r1.b <<< (8 - r1.count)) % 256 }
    (byt, r2.err, r2)

/-- first loop of `ReadBits`: `k` whole bytes; stops with `(0, err)` at the first error -/
def Reader.readBytesAcc (r : Reader) (u : Nat) : Nat → Option Nat × Reader
  | 0 => (some u, r)
  | k + 1 =>
    let (byt, e, r1) := r.readByte
    if e then (none, r1) else Reader.readBytesAcc r1 (((u <<< 8) % two64) ||| byt) k

/-- second loop of `ReadBits`: `k` single bits -/
def Reader.readBitsAcc (r : Reader) (u : Nat) : Nat → Option Nat × Reader
  | 0 => (some u, r)
  | k + 1 =>
    let (bit, e, r1) := r.readBit
    if e then (none, r1)
    else
      let u1 := (u <<< 1) % two64
      Reader.readBitsAcc r1 (if bit then u1 ||| 1 else u1) k

/-- `ReadBits(numBits)` for `numBits ≥ 0` → (`some u` | `none` on error) -/
def Reader.readBits (r : Reader) (n : Nat) : Option Nat × Reader :=
  match r.readBytesAcc 0 (n / 8) with
  | (none, r1) => (none, r1)
  | (some u, r1) => r1.readBitsAcc u (n % 8)

end LinVerif.Bits
