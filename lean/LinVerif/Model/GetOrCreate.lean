/-
Interleaving model of the write path's two get-or-create levels (core Lean only):

  tsdb/shard.go             shard.GetOrCrateDataFamily(t):
                               segment := s.segment.GetOrCreateSegment(GetSegment(t))     -- level 0
                               verifhook.Yield("tsdb.shard.getOrCrateDataFamily.afterSegment")
                               family  := segment.GetOrCreateDataFamily(t)                -- level 1
  tsdb/interval_segment.go  intervalSegment.GetOrCreateSegment: mutex.Lock; defer Unlock;
                               segments[name] hit -> return; newSegmentFunc(..); segments[name] = seg
  tsdb/segment.go           segment.GetOrCreateDataFamily: CalcSegmentTime guard; CalcFamily;
                               mutex.Lock; defer Unlock; families[familyTime] hit -> return;
                               kv family; initDataFamily = newDataFamilyFunc(..); families[familyTime] = f

Every writer thread performs the two get-or-creates one after the other. A level is executed in
one of three shapes, selected by the regenerated step list of the Go function (`gocVariantOf`):

  atomic          the whole body is one critical section (the code as it is): one atomic step
  splitNoRecheck  lookup under the lock | create without the lock | store under the lock (3 steps)
  splitRecheck    the same, but the store step looks again and keeps an object registered meanwhile

The shared state is one map from keys to object ids: the key of level 0 is `(0, segmentTime)`
(`intervalSegment.segments[name]`, the name being the formatted segment time), the key of level 1
is `(segmentObject + 1, familyIndex)` (`segment.families[familyTime]` of THAT segment object).
Object ids are allocated from a counter (`next`) — an id stands for a pointer.
-/
import LinVerif.Model.Interval

namespace LinVerif.Interval

inductive GocVariant where
  | atomic | splitNoRecheck | splitRecheck
  deriving DecidableEq, Repr

/-- program counter of a thread inside the level it is currently executing -/
inductive GPc where
  | look              -- about to take the lock and look the key up
  | make              -- looked up, absent, lock released (split shapes only): about to create
  | put (o : Nat)     -- created object `o` outside the lock: about to take the lock and store
  | fin               -- both levels done
  deriving DecidableEq, Repr

structure GThread where
  ts : Int                      -- the timestamp the thread writes
  seg : Int                     -- CalcSegmentTime(ts): the segment (name) it asks for
  fam : Int                     -- CalcFamily(ts, seg): the family index inside the segment
  segObj : Option Nat := none   -- result of level 0
  famObj : Option Nat := none   -- result of level 1
  pc : GPc := .look
  deriving DecidableEq, Repr

abbrev GKey := Nat × Int

structure GState where
  map : List (GKey × Nat) := []
  next : Nat := 0
  opened : Nat := 0            -- number of segment objects created (newSegmentFunc calls)
  threads : List GThread := []
  deriving Repr

/-- the writer thread of timestamp `t` (`shard.GetOrCrateDataFamily(t)` before its first step) -/
def mkThread (c : Calc) (t : Int) : GThread :=
  { ts := t, seg := calcSegmentTime c t, fam := calcFamily c t (calcSegmentTime c t) }

def gInit (c : Calc) (ts : List Int) : GState := { threads := ts.map (mkThread c) }

/-- key of the level the thread is in -/
def GThread.key (t : GThread) : GKey :=
  match t.segObj with
  | none => (0, t.seg)
  | some so => (so + 1, t.fam)

/-- the level's get-or-create returned `o` -/
def GThread.finish (t : GThread) (o : Nat) : GThread :=
  match t.segObj with
  | none => { t with segObj := some o, pc := .look }
  | some _ => { t with famObj := some o, pc := .fin }

def gLookup (k : GKey) (m : List (GKey × Nat)) : Option Nat := m.lookup k

/-- store = map assignment: the newest binding wins -/
def gStore (k : GKey) (o : Nat) (m : List (GKey × Nat)) : List (GKey × Nat) := (k, o) :: m

structure GShared where
  map : List (GKey × Nat)
  next : Nat
  opened : Nat

/-- one atomic step of thread `t` (`vs` / `vf`: shapes of level 0 / level 1) -/
def stepThread (vs vf : GocVariant) (sh : GShared) (t : GThread) : GShared × GThread :=
  let v := if t.segObj.isNone then vs else vf
  let opened' := if t.segObj.isNone then sh.opened + 1 else sh.opened
  match t.pc with
  | .fin => (sh, t)
  | .look =>
    match gLookup t.key sh.map with
    | some o => (sh, t.finish o)
    | none =>
      if v = .atomic then
        ({ map := gStore t.key sh.next sh.map, next := sh.next + 1, opened := opened' }, t.finish sh.next)
      else (sh, { t with pc := .make })
  | .make => ({ sh with next := sh.next + 1, opened := opened' }, { t with pc := .put sh.next })
  | .put o =>
    -- `splitNoRecheck`: plain assignment. Otherwise (double-checked shape; unreachable for `atomic`)
    -- the store step looks again and keeps what was registered meanwhile.
    if v = .splitNoRecheck then ({ sh with map := gStore t.key o sh.map }, t.finish o)
    else
      match gLookup t.key sh.map with
      | some o' => (sh, t.finish o')
      | none => ({ sh with map := gStore t.key o sh.map }, t.finish o)

/-- the scheduler lets thread `i` run one atomic step (no such thread: nothing happens) -/
def stepAt (vs vf : GocVariant) (s : GState) (i : Nat) : GState :=
  match s.threads[i]? with
  | none => s
  | some t =>
    let r := stepThread vs vf ⟨s.map, s.next, s.opened⟩ t
    { map := r.1.map, next := r.1.next, opened := r.1.opened, threads := s.threads.set i r.2 }

def gRun (vs vf : GocVariant) (s : GState) (sched : List Nat) : GState :=
  sched.foldl (stepAt vs vf) s

/-- after the schedule every thread runs to completion, in index order (each thread needs at most
six steps); used by the driver and the witnesses, not by the theorems -/
def gDrain (vs vf : GocVariant) (s : GState) : GState :=
  (List.range s.threads.length).foldl
    (fun s i => (List.range 6).foldl (fun s _ => stepAt vs vf s i) s) s

/-- the family object a query finds for the family of thread `t`: the one registered in the
registered segment (`getOrLoadFamily` creates one there if that segment has none) -/
def gRegistered (s : GState) (t : GThread) : Option Nat :=
  match gLookup (0, t.seg) s.map with
  | none => none
  | some so => gLookup (so + 1, t.fam) s.map

/-! ### regenerated step list → shape -/

/-- the events of a get-or-create body that decide its shape: mutex operations, reads and writes of
the map `m`, the call of the constructor seam `f` -/
def gocRelevant (m f : String) (steps : List String) : List String :=
  steps.filter fun s =>
    s = "Lock" || s = "Unlock" || s = "defer:Unlock" || s = "read:" ++ m || s = "write:" ++ m || s = "call:" ++ f

/-- replace the call of `callee` by the callee's own events -/
def gocInline (callee : String) (body : List String) (steps : List String) : List String :=
  steps.flatMap fun s => if s = "call:" ++ callee then body else [s]

def gocVariantOf (m f : String) (steps : List String) : Option GocVariant :=
  let r := "read:" ++ m
  let w := "write:" ++ m
  let c := "call:" ++ f
  let ev := gocRelevant m f steps
  if ev = ["Lock", "defer:Unlock", r, c, w] then some .atomic
  else if ev = ["Lock", r, "Unlock", c, "Lock", w, "Unlock"] then some .splitNoRecheck
  else if ev = ["Lock", r, "Unlock", c, "Lock", "defer:Unlock", w] then some .splitNoRecheck
  else if ev = ["Lock", r, "Unlock", c, "Lock", r, w, "Unlock"] then some .splitRecheck
  else if ev = ["Lock", r, "Unlock", c, "Lock", "defer:Unlock", r, w] then some .splitRecheck
  else none

/-! ### canonical output for the driver -/

/-- number object ids by first appearance -/
def gCanon (xs : List (Option Nat)) : List String :=
  let rec go : List (Option Nat) → List Nat → List String
    | [], _ => []
    | none :: r, seen => "-" :: go r seen
    | some o :: r, seen =>
      match seen.idxOf? o with
      | some i => toString i :: go r seen
      | none => toString seen.length :: go r (seen ++ [o])
  go xs []

end LinVerif.Interval
