/-
C10 model, part 3 (round 12; core Lean only; linked into lvmodel_C10).

The glue that decides WHICH operators a leaf query runs, and the branch without a WHERE condition:

* `metadataLookupStage.Plan` (query/stage/metadata_lookup_stage.go): metadata lookup, then tag values
  lookup only `if hasWhereCondition` (`execCtx.Query.Condition != nil`);
* `shardScanStage.Plan` (query/stage/shard_scan_stage.go): series filtering `if queryStmt.Condition != nil`,
  else metric-all-series; one data family read per family; grouping context build only
  `if …Query.HasGroupBy()`; series limit;
* `baseStage.execute`: operators run in plan order, the first error ends the plan;
* `metricAllSeries.Execute` (query/operator/metric_all_series.go): `GetSeriesIDsForMetric`, plus
  `series.IDWithoutTags` (= 0) when the query has no group-by, OR-ed into `SeriesIDsAfterFiltering`;
* `tagValuesLookup.Execute` / `seriesFiltering.Execute` as operators on a shared context (the result
  map is created by the lookup operator; the filtering operator ORs its result object into
  `SeriesIDsAfterFiltering`).

The operators communicate only through the execute context (`PCtx`), as in the Go code; the
interpreter `execPlan` runs whatever list of operators the plan functions produced.
-/
import LinVerif.Model.TagFilterHeap

namespace LinVerif.TagFilter

/-- the operator constructors the two `Plan()` functions choose between -/
inductive POp
  | metadataLookup | tagValuesLookup | seriesFiltering | metricAllSeries | dataFamilyRead
  | groupingContextBuild | seriesLimit
  deriving DecidableEq, Repr

/-- the constructor's name in the Go source (`operator.New…`) -/
def POp.ctor : POp → String
  | .metadataLookup => "operator.NewMetadataLookup"
  | .tagValuesLookup => "operator.NewTagValuesLookup"
  | .seriesFiltering => "operator.NewSeriesFiltering"
  | .metricAllSeries => "operator.NewMetricAllSeries"
  | .dataFamilyRead => "operator.NewDataFamilyRead"
  | .groupingContextBuild => "operator.NewGroupingContextBuild"
  | .seriesLimit => "operator.NewSeriesLimit"

/-- `metadataLookupStage.Plan` -/
def metaPlan (hasCond : Bool) : List POp :=
  .metadataLookup :: (if hasCond then [.tagValuesLookup] else [])

/-- `shardScanStage.Plan` for a shard with one data family in the time range -/
def shardPlan (hasCond hasGroupBy : Bool) : List POp :=
  (if hasCond then POp.seriesFiltering else POp.metricAllSeries) :: .dataFamilyRead ::
    ((if hasGroupBy then [POp.groupingContextBuild] else []) ++ [.seriesLimit])

/-- `series.IDWithoutTags` -/
def idWithoutTags : SeriesId := 0

/-- `GetSeriesIDsForMetric` (`metricInverted.getSeriesIDs`): the series ids stored under the metric.
The metric → series store is not split into memory / file parts in the model (like the series store
it is filled from; its flush states are exercised by the correspondence). -/
def allSeries (st : State) (m : Metric) : List SeriesId :=
  (st.series.filter (fun e => e.1.1 == m)).map (·.2)

/-- what the operators of one leaf query share: `StorageExecuteContext` (group-by key ids,
`TagFilterResult` — `none` while the map was never created) and `ShardExecuteContext`
(`SeriesIDsAfterFiltering`, the grouping result) -/
structure PCtx where
  kids : Option (List KeyId) := none
  tfr : Option TFR := none
  sel : List SeriesId := []
  groups : Option (Except Err (List (SeriesId × List (ValId × Option Bytes)))) := none

/-- one operator's `Execute()` on the shared context -/
def execOp (F : Flags) (memoise : Bool) (M : Matcher) (st : State) (m : Metric) (keys : List Bytes)
    (c : Option Expr) (x : PCtx) : POp → Except Err PCtx
  | .metadataLookup =>
    if !metricKnown st m then .error .metricNotFound
    else
      match lookupKeys st m keys with
      | none => .error .keyNotFound
      | some kids => .ok { x with kids := some kids }
  | .tagValuesLookup =>
    -- `TagFilterResult = make(map…)`, then the walk (`expr == nil` returns at once)
    match c with
    | none => .ok { x with tfr := some [] }
    | some e =>
      match lookupAll F M st m e [] with
      | .error err => .error err
      | .ok res => .ok { x with tfr := some res }
  | .seriesFiltering =>
    -- `condition == nil` ⇒ an empty bitmap; a nil result map reads like an empty one
    match c with
    | none => .ok x
    | some e =>
      match filterHeap F memoise st (x.tfr.getD []) e (BHeap.empty, []) with
      | .error err => .error err
      | .ok (_, a, (h, _)) => .ok { x with sel := x.sel ++ h.cell a }
  | .metricAllSeries =>
    .ok { x with sel := x.sel ++ (allSeries st m ++ (if keys.isEmpty then [idWithoutTags] else [])) }
  | .dataFamilyRead => .ok x      -- stand-in: every selected series has data
  | .groupingContextBuild => .ok { x with groups := some (groupBy F st m keys x.sel) }
  | .seriesLimit => .ok x         -- limits disabled

/-- `baseStage.execute` over the children of a plan node: in order, the first error ends it -/
def execPlan (F : Flags) (memoise : Bool) (M : Matcher) (st : State) (m : Metric) (keys : List Bytes)
    (c : Option Expr) : List POp → PCtx → Except Err PCtx
  | [], x => .ok x
  | op :: rest, x =>
    match execOp F memoise M st m keys c x op with
    | .error e => .error e
    | .ok x' => execPlan F memoise M st m keys c rest x'

/-- a leaf query on one shard as the stages run it: the metadata stage's plan, then the shard scan
stage's plan, on one fresh context -/
def leafPlan (F : Flags) (memoise : Bool) (M : Matcher) (st : State) (m : Metric) (keys : List Bytes)
    (c : Option Expr) : Except Err LeafResult :=
  match execPlan F memoise M st m keys c (metaPlan c.isSome ++ shardPlan c.isSome (!keys.isEmpty)) {} with
  | .error e => .error e
  | .ok x => .ok { series := x.sel, groups := x.groups }

/-- evaluate a plan read off the SOURCE: `(constructor, guard)` pairs in source order, the guards
being the conditions of the enclosing `if` / `else` / `range` statements (innermost last). An unknown
guard text yields the marker `?…` so that no tie can close over it. -/
def guardVal (hasCond hasGroupBy : Bool) (g : String) : Option Bool :=
  if g = "hasWhereCondition" then some hasCond
  else if g = "queryStmt.Condition != nil" then some hasCond
  else if g = "!(queryStmt.Condition != nil)" then some (!hasCond)
  else if g = "shardExecuteCtx.StorageExecuteCtx.Query.HasGroupBy()" then some hasGroupBy
  else if g = "range families" then some true
  else none

def planOfSource (hasCond hasGroupBy : Bool) : List (String × List String) → List String
  | [] => []
  | (ctor, gs) :: rest =>
    match gs.mapM (guardVal hasCond hasGroupBy) with
    | none => ("?" ++ ctor) :: planOfSource hasCond hasGroupBy rest
    | some bs => (if bs.all id then [ctor] else []) ++ planOfSource hasCond hasGroupBy rest

end LinVerif.TagFilter
