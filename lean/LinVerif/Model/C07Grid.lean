/-
C07, node level with SEVERAL shards and SEVERAL family hours: the product of the single-partition
model `NodeRecovery.St` over all log partitions `<wal>/<db>/<shard>/<family hour>/<leader>` of one
storage node. Core Lean only.

What is shared in the code and how the product keeps it shared:
  * database level (one `metricMetaDatabase`): the metric and tag-value dictionaries; their flush
    steps (`database.FlushMeta`) are `GEv.db` events and reach every lane;
  * shard level (one `metricIndexDatabase` per shard): the index dictionary; `shard.FlushIndex` is a
    `GEv.shard` event and reaches the lanes of that shard;
  * family level (one `dataFamily` per shard and hour): memory databases, data files, the sequence
    maps; `dataFamily.Flush` / `Close` steps are `GEv.fam` events and reach the lanes (leaders) of that family;
  * partition level: log, consumer group, local replicator: `GEv.lane`. A row written by one lane is
    seen by the lanes of the same family as `foreignWrite`, by the other families of the shard as
    `foreignNames`, by the other shards as `foreignMetric` (+ `foreignTagv` when the series was new
    in the writer's shard index: `GenTagValueID` is only called for a new series);
  * process level: `crash`; the recovery walk of `writeAheadLog.recovery` (shards, then family hours,
    then leaders: `restart`), and the process dying INSIDE the walk (`walkCrash`).

Go anchors: replica/wal.go recovery / destroy / GetOrCreatePartition, replica/wal_manager.go Recovery /
garbageCollect, tsdb/data_flush_checker.go doFlush (shard loop) / flushShard (family loop),
tsdb/database.go Close (shard loops), tsdb/segment.go Close (family loop).
-/
import LinVerif.Model.NodeRecovery

namespace LinVerif.NodeRecovery

/-- one log partition of the node: `<shard>/<family hour>/<leader>` -/
structure PKey where
  shard : Nat
  family : Nat
  leader : Nat
deriving DecidableEq, Repr

/-- the lanes in the order of the recovery walk (directory listing order: shard, family hour, leader) -/
abbrev Grid := List (PKey × St)

def Grid.init (keys : List PKey) : Grid := keys.map (fun k => (k, St.init))

def Grid.lane? (g : Grid) (k : PKey) : Option St := (g.find? (fun p => p.1 == k)).map (·.2)

/-- position of a partition in the recovery walk -/
def Grid.pos (g : Grid) (k : PKey) : Nat := g.findIdx (fun p => p.1 == k)

/-- events of ONE partition / local replicator -/
def laneEvOk : Ev → Bool
  | .append _ _ | .appendBad | .applyBegin | .applyGetFail | .applyNoRows | .applyTake | .applyAcquire | .applyWrite | .applyCommit
  | .logGC _ | .walExpire => true
  | _ => false

/-- the steps of `dataFamily.Flush` / `dataFamily.Close` -/
def famEvOk : Ev → Bool
  | .freeze | .dataCommit | .ackCallback => true
  | _ => false

/-- the steps of `shard.FlushIndex` -/
def shardEvOk : Ev → Bool
  | .indexPrepare | .indexFlush => true
  | _ => false

/-- the steps of `database.FlushMeta` -/
def dbEvOk : Ev → Bool
  | .metaPrepare | .metaFlushMetric | .metaFlushTagv => true
  | _ => false

inductive GEv
  | lane (k : PKey) (e : Ev)       -- an event of partition `k`
  | fam (s f : Nat) (e : Ev)       -- a flush step of the data family `(s, f)`: all leaders' lanes of that family
  | shard (s : Nat) (e : Ev)       -- an index flush step of shard `s`
  | db (e : Ev)                    -- a metadata flush step of the database
  | crash                          -- the process dies
  | restart                        -- engine open + the whole `writeAheadLog.recovery` walk
  | walkCrash (n : Nat) (mid : Bool)
    -- the process dies inside the recovery walk: the first `n` partitions are recovered and rewound,
    -- partition `n` (when `mid`) has registered its ack callback but not rewound, the rest is untouched
deriving DecidableEq, Repr

/-- what lane `k'` sees of event `e` of lane `k` (state `src`): only a row write is visible elsewhere -/
def inducedEvs (k : PKey) (src : St) (e : Ev) (k' : PKey) : List Ev :=
  match e, src.inflight with
  | .applyWrite, some fl =>
    if fl.acquired && !fl.written && src.phase == .running then
      if k'.shard = k.shard then
        if k'.family = k.family && !fl.closed then [.foreignWrite fl.metric fl.tagv]
        else [.foreignNames fl.metric fl.tagv]
      else
        .foreignMetric fl.metric ::
          (if src.index.known (fl.metric, fl.tagv) then [] else [.foreignTagv fl.metric fl.tagv])
    else []
  | _, _ => []

/-- the single-partition events that grid event `ge` means for lane `k'` of grid `g` -/
def laneEvs (g : Grid) (ge : GEv) (k' : PKey) : List Ev :=
  match ge with
  | .lane k e =>
    if laneEvOk e then
      match g.lane? k with
      | none => []
      | some src => if k' = k then [e] else inducedEvs k src e k'
    else []
  | .fam s f e => if famEvOk e && k'.shard == s && k'.family == f then [e] else []
  | .shard s e => if shardEvOk e && k'.shard == s then [e] else []
  | .db e => if dbEvOk e then [e] else []
  | .crash => [.crash]
  | .restart => [.recover, .rewind]
  | .walkCrash n mid =>
    if g.pos k' < n then [.recover, .rewind, .crash]
    else if g.pos k' = n ∧ mid then [.recover, .crash]
    else [.crash]

def stepGrid (cfg : Cfg) (g : Grid) (ge : GEv) : Grid :=
  g.map (fun p => (p.1, run cfg p.2 (laneEvs g ge p.1)))

def runGrid (cfg : Cfg) (g : Grid) (gevs : List GEv) : Grid := gevs.foldl (stepGrid cfg) g

/-- the single-partition history of lane `k` inside a grid history -/
def laneTrace (cfg : Cfg) (g : Grid) : List GEv → PKey → List Ev
  | [], _ => []
  | ge :: rest, k => laneEvs g ge k ++ laneTrace cfg (stepGrid cfg g ge) rest k

/-! ### the outer loops of the code as grid histories -/

def distinctNat : List Nat → List Nat
  | [] => []
  | x :: t => if t.contains x then distinctNat t else x :: distinctNat t

def Grid.shards (g : Grid) : List Nat := distinctNat (g.map (·.1.shard))

def Grid.families (g : Grid) (s : Nat) : List Nat :=
  distinctNat ((g.filter (fun p => p.1.shard == s)).map (·.1.family))

/-- `dataFamily.Flush` of family `(s, f)` -/
def famFlush (s f : Nat) : List GEv := [.fam s f .freeze, .fam s f .dataCommit, .fam s f .ackCallback]

/-- `flushShard`: `FlushIndex`, wait, then `family.Flush` for every requested family of the shard -/
def shardFlush (s : Nat) (fams : List Nat) : List GEv :=
  [.shard s .indexPrepare, .shard s .indexFlush] ++ fams.flatMap (famFlush s)

/-- `dataFlushChecker.doFlush` for a request over several shards: `FlushMeta`, wait, then the shard loop -/
def doFlushRound (req : List (Nat × List Nat)) : List GEv :=
  [.db .metaPrepare, .db .metaFlushMetric, .db .metaFlushTagv] ++ req.flatMap (fun p => shardFlush p.1 p.2)

/-- `dataFamily.Close` of family `(s, f)` (`closeEvs` on every lane of the family) -/
def famClose (s f : Nat) : List GEv := closeEvs.map (GEv.fam s f)

/-- graceful shutdown `engine.Close` -> `database.Close`: `flushMeta`; `FlushIndex` of EVERY shard; then per
shard `shard.Close` = index flush once more, `segment.Close` = `dataFamily.Close` of every family -/
def shutdownGrid (g : Grid) : List GEv :=
  [.db .metaPrepare, .db .metaFlushMetric, .db .metaFlushTagv] ++
  g.shards.flatMap (fun s => [.shard s .indexPrepare, .shard s .indexFlush]) ++
  g.shards.flatMap (fun s => [GEv.shard s .indexPrepare, GEv.shard s .indexFlush] ++ (g.families s).flatMap (famClose s))

/-- the part of the graceful shutdown that has run when `dataFamily.Close` of family `(s, f)` begins -/
def shutdownUpTo (g : Grid) (s f : Nat) : List GEv :=
  [.db .metaPrepare, .db .metaFlushMetric, .db .metaFlushTagv] ++
  g.shards.flatMap (fun s' => [.shard s' .indexPrepare, .shard s' .indexFlush]) ++
  (g.shards.takeWhile (· != s)).flatMap
    (fun s' => [GEv.shard s' .indexPrepare, GEv.shard s' .indexFlush] ++ (g.families s').flatMap (famClose s')) ++
  [GEv.shard s .indexPrepare, GEv.shard s .indexFlush] ++ ((g.families s).takeWhile (· != f)).flatMap (famClose s)

/-- one tick of the WAL garbage collector (`writeAheadLog.destroy`): `IsExpire` of every partition; the
time-window test is outside the model, `expired` names the family hours that are past their window -/
def walGcTick (g : Grid) (expired : List Nat) : List GEv :=
  (g.filter (fun p => expired.contains p.1.family)).map (fun p => GEv.lane p.1 .walExpire)

end LinVerif.NodeRecovery
