/-
C01 — model of pkg/bufioutil's entry framing (core Lean only).

  writeEntries   bufioEntryWriter.Write: uvarint length header, then the content, per entry
  RState, fill, readByte, readSome
                 bufio.Reader over the file: a buffer of at most `B` bytes that is refilled only when
                 it is empty; `Read(p)` hands out what is buffered (possibly fewer than len(p) bytes:
                 a SHORT read), or reads directly when the buffer is empty and len(p) ≥ B
  readFull       io.ReadFull: repeat Read until the slice is full (or nothing comes any more)
  readUvarintR   binary.ReadUvarint over ReadByte
  readEntries    the `for reader.Next() { reader.Read() }` loop of version_set.go recover():
                 Next = ReadUvarint (EOF at an entry boundary ends the loop) + io.ReadFull of the content

The buffer size `B` (256 KB in the code) is a parameter: the round trip is proved for every B ≥ 1,
i.e. wherever the buffer boundaries fall inside the entries.
-/
import LinVerif.Model.Manifest

namespace LinVerif.Kv

/-- the step names of bufioEntryReader.Next that read from the file, in code order -/
def entryReaderSteps : List String := ["binary.ReadUvarint", "io.ReadFull"]

/-- the step names of bufioEntryWriter.Write, in code order -/
def entryWriterSteps : List String := ["binary.PutUvarint", "w.Write", "w.Write"]

def writeEntry (r : Bytes) : Bytes := putUvarint r.length ++ r

def writeEntries : List Bytes → Bytes
  | [] => []
  | r :: t => writeEntry r ++ writeEntries t

/-- bufio.Reader: buffered bytes not yet handed out, and the rest of the file -/
structure RState where
  buf : Bytes
  rest : Bytes
  deriving Repr

def RState.stream (s : RState) : Bytes := s.buf ++ s.rest

/-- refill (only when the buffer is empty): one read of up to `B` bytes -/
def fill (B : Nat) (s : RState) : RState :=
  match s.buf with
  | [] => ⟨s.rest.take B, s.rest.drop B⟩
  | _ :: _ => s

def readByte (B : Nat) (s : RState) : Option (Nat × RState) :=
  match (fill B s).buf with
  | [] => none
  | b :: t => some (b, ⟨t, (fill B s).rest⟩)

/-- one `Read(p)` with len(p) = n: never refills a non-empty buffer -/
def readSome (B : Nat) (s : RState) (n : Nat) : Bytes × RState :=
  match s.buf with
  | [] =>
    if B ≤ n then (s.rest.take n, ⟨[], s.rest.drop n⟩)          -- large read: directly from the file
    else
      let s' := fill B s
      (s'.buf.take n, ⟨s'.buf.drop n, s'.rest⟩)
  | _ :: _ => (s.buf.take n, ⟨s.buf.drop n, s.rest⟩)            -- possibly SHORT

/-- io.ReadFull(r, p) with len(p) = n; `fuel` only makes the recursion structural (n suffices) -/
def readFull (B : Nat) : Nat → RState → Nat → Bytes × RState
  | 0, s, _ => ([], s)
  | fuel + 1, s, n =>
    if n = 0 then ([], s) else
    let r := readSome B s n
    if r.1 = [] then ([], r.2) else
    let r2 := readFull B fuel r.2 (n - r.1.length)
    (r.1 ++ r2.1, r2.2)

/-- binary.ReadUvarint over ReadByte (no 10-byte overflow check); `fuel` ≥ number of bytes of the varint -/
def readUvarintR (B : Nat) : Nat → RState → Option (Nat × RState)
  | 0, _ => none
  | fuel + 1, s =>
    match readByte B s with
    | none => none
    | some (b, s') =>
      if b < 128 then some (b, s')
      else match readUvarintR B fuel s' with
        | some (v, s'') => some (b - 128 + 128 * v, s'')
        | none => none

/-- the entry loop; result: the entries read and whether the loop ended at a clean end of file -/
def readEntriesF (B : Nat) : Nat → RState → List Bytes × Bool
  | 0, _ => ([], false)
  | fuel + 1, s =>
    if s.buf = [] ∧ s.rest = [] then ([], true) else
    match readUvarintR B fuel s with
    | none => ([], false)
    | some (len, s') =>
      let r := readFull B len s' len
      -- io.ReadFull: nothing at all read (io.EOF) ends the loop WITHOUT an error: a tail that is only a
      -- length header is silently dropped; a partly present content is io.ErrUnexpectedEOF: an error
      if r.1.length < len then (if r.1 = [] then ([], true) else ([], false)) else
      let t := readEntriesF B fuel r.2
      (r.1 :: t.1, t.2)

def readEntries (B : Nat) (file : Bytes) : List Bytes × Bool :=
  readEntriesF B (file.length + 1) ⟨[], file⟩

/-- the seeded variant of Next for comparison: ONE Read instead of io.ReadFull -/
def readEntriesShortF (B : Nat) : Nat → RState → List Bytes × Bool
  | 0, _ => ([], false)
  | fuel + 1, s =>
    if s.buf = [] ∧ s.rest = [] then ([], true) else
    match readUvarintR B fuel s with
    | none => ([], false)
    | some (len, s') =>
      let r := readSome B s' len
      let t := readEntriesShortF B fuel r.2
      (r.1 :: t.1, t.2)

end LinVerif.Kv
