/-
Caller-owned buffers versus what a writer keeps of them (core Lean only).

Mirrors the three places of the anchored codecs where an ENCODER receives a caller's `[]byte`:

* `pkg/compress/snappy.go` `snappyWriter.Write(row)`  → forwards `row` to ONE callee of the snappy stream writer,
* `pkg/stream/writer.go`   `writer.PutBytes(v)` / `writer.Write(p)` → `bytes.Buffer.Write`,
* `pkg/encoding/tsd_stream.go` `tsdStreamWriter.WriteField(id, data)` → `writer.PutBytes(data)`.

Go slices are references: whether the bytes that end up in the chunk are those the slice held WHEN `Write`
RETURNED or those it holds LATER depends only on whether the callee copies (`io.Writer` contract: "must not
retain p") or keeps the slice (`s2.Writer.EncodeBuffer`: zero copy, compressed by a goroutine some time before
`Close` returns). The callee is re-read from the source on every run (`Generated.C14.*Sinks`: the calls that
receive the slice parameter, the fields it is stored in), `sinkSem` says what each known sink does, an unknown sink
has NO semantics (`none`): the obligations of Props/C14
(`snappy_write_does_not_retain`, …) then fail by name.

Memory: a caller buffer is a backing array that only grows; `fill` is `copy(buf, bs)` (growing the array when
`bs` is longer), a written slice is `buf[:n]`.
-/
import LinVerif.Generated.C14
import LinVerif.Util.Map

namespace LinVerif.BufAlias

/-- what a callee does with the `[]byte` it is given -/
inductive Sem
  | copies    -- the bytes are copied before the call returns
  | retains   -- the slice header is kept; the bytes are read later (at the latest when the chunk is closed)
  deriving DecidableEq, Repr

/-- the sinks a caller's slice may reach in the anchored writers, by the name `sliceParamSinks` prints -/
def sinkSem : String → Option Sem
  | "writer.Write" => some .copies          -- s2/snappy `(*Writer).Write`: copies into `ibuf` (io.Writer)
  | "writer.EncodeBuffer" => some .retains  -- s2 `(*Writer).EncodeBuffer`: "buf must not be written to until Flush/Close"
  | "buf.Write" => some .copies             -- `bytes.Buffer.Write`: copy into the buffer's own array
  | "compressed.Write" => some .copies      -- `bytes.Buffer.Write` (snappyReader's input buffer)
  | "copy" => some .copies
  | "append" => some .copies
  | "range" => some .copies                 -- read element by element before the call returns
  | "return" => some .retains
  | "store:values" => some .retains         -- kept in a field of the receiver (`FixedOffsetEncoder.values`)
  | _ => none

/-- semantics of a method from the sinks of its slice parameter: no sink or an unknown sink = no semantics;
one retaining sink makes the method retain -/
def sinksSem : List String → Option Sem
  | [] => none
  | [c] => sinkSem c
  | c :: t =>
    match sinkSem c, sinksSem t with
    | some .copies, some s => some s
    | some .retains, some _ => some .retains
    | _, _ => none

/-- `snappyWriter.Write` as it is in the source now -/
def snappyWriteSem : Option Sem := sinksSem Generated.C14.snappyWriterWriteSinks

/-- `stream.writer.PutBytes` / `stream.writer.Write` -/
def streamPutBytesSem : Option Sem := sinksSem Generated.C14.streamWriterPutBytesSinks
def streamWriteSem : Option Sem := sinksSem Generated.C14.streamWriterWriteSinks

/-- `tsdStreamWriter.WriteField`: `data` reaches `writer.PutBytes` only (the header puts take values) -/
def tsdWriteFieldSem : Option Sem :=
  if Generated.C14.tsdStreamWriterWriteFieldSinks = ["writer.PutBytes"] then streamPutBytesSem else none

/-- `snappyReader.Uncompress(compressData)`: the input is copied into the reader's own buffer -/
def snappyUncompressInputSem : Option Sem := sinksSem Generated.C14.snappyReaderUncompressSinks

/-- `FixedOffsetEncoder.FromValues(values)`: stores the caller's slice (by design: the encoder borrows it until
`MarshalBinary`/`Write`) -/
def fixedOffsetFromValuesSem : Option Sem := sinksSem Generated.C14.fixedOffsetFromValuesSinks

inductive Piece
  | lit (bs : List Nat)          -- copied bytes
  | ref (buf : Nat) (n : Nat)    -- the caller's slice `buf[:n]`
  deriving Repr

structure World where
  mem : List (Nat × List Nat) := []   -- caller-owned backing arrays by id
  staged : List Piece := []           -- what the writer holds for the open chunk, oldest first
  deriving Repr

/-- current content of a backing array (an id never filled is the nil slice) -/
def read (mem : List (Nat × List Nat)) (b : Nat) : List Nat :=
  match Map.lookup mem b with
  | some bs => bs
  | none => []

/-- `copy(buf, bs)` on an array grown to `len(bs)` if needed: the tail of the old content stays -/
def overwrite (old bs : List Nat) : List Nat := bs ++ old.drop bs.length

def resolve (mem : List (Nat × List Nat)) : Piece → List Nat
  | .lit bs => bs
  | .ref b n => (read mem b).take n

/-- the plain text the open chunk encodes, were it closed now -/
def World.plain (w : World) : List Nat := (w.staged.map (resolve w.mem)).flatten

/-- the caller writes into its own buffer (marshals the next row, poisons the scratch, …) -/
def World.fill (w : World) (b : Nat) (bs : List Nat) : World :=
  { w with mem := Map.upsert w.mem b (overwrite (read w.mem b) bs) }

/-- `w.Write(buf[:n])`; `none` = the slice expression is out of range (Go panics before the call) -/
def World.write (sem : Sem) (w : World) (b n : Nat) : Option World :=
  if n ≤ (read w.mem b).length then
    some { w with staged := w.staged ++ [match sem with
      | .copies => .lit ((read w.mem b).take n)
      | .retains => .ref b n] }
  else none

/-- `Close(); Bytes()` followed by a decode: the chunk's plain text; the writer is reset for the next chunk -/
def World.cut (w : World) : List Nat × World := (w.plain, { w with staged := [] })

inductive Op
  | fill (b : Nat) (bs : List Nat)
  | write (b n : Nat)
  | cut
  deriving Repr

/-- the chunks produced by a history (in order); `none` iff some `write` is out of range -/
def run (sem : Sem) (w : World) : List Op → Option (List (List Nat))
  | [] => some []
  | .fill b bs :: t => run sem (w.fill b bs) t
  | .write b n :: t =>
    match w.write sem b n with
    | some w' => run sem w' t
    | none => none
  | .cut :: t => (run sem w.cut.2 t).map (w.cut.1 :: ·)

/-- SPECIFICATION (no writer in it): every chunk is the concatenation of the rows as they were when their
`Write` was called; `cur` = rows of the open chunk so far -/
def spec (mem : List (Nat × List Nat)) (cur : List Nat) : List Op → Option (List (List Nat))
  | [] => some []
  | .fill b bs :: t => spec (Map.upsert mem b (overwrite (read mem b) bs)) cur t
  | .write b n :: t =>
    if n ≤ (read mem b).length then spec mem (cur ++ (read mem b).take n) t else none
  | .cut :: t => (spec mem [] t).map (cur :: ·)

/-- the caller discipline `EncodeBuffer` asks for: a buffer handed to the writer is not written to before the
chunk is cut (`busy` = buffers referenced by the open chunk) -/
def disciplined (busy : List Nat) : List Op → Bool
  | [] => true
  | .fill b _ :: t => !busy.contains b && disciplined busy t
  | .write b _ :: t => disciplined (b :: busy) t
  | .cut :: t => disciplined [] t

end LinVerif.BufAlias
