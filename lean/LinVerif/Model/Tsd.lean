/-
Byte-exact model of pkg/encoding/tsd.go (TSDEncoder / TSDDecoder), core Lean only.
Slots are `uint16`: `startTime`, `endTime`, `count`, `idx` live in `0..65535` and every sum is
taken modulo 65536 exactly where the Go code computes in `uint16`.

`TSDEncoder.err` can only become non-nil when `bytes.Buffer.Write` fails, which it never does;
the `if e.err != nil` guards are therefore not modelled.
-/
import LinVerif.Model.Xor
import LinVerif.Generated.C14

namespace LinVerif.Tsd
open LinVerif.Bits LinVerif.Xor

def u16 (x : Nat) : Nat := x % 65536

/-- little-endian bytes of a `uint16` (`stream.PutUint16`) -/
def le16 (x : Nat) : List Nat := [x % 256, (x / 256) % 256]

/-- `binary.LittleEndian.Uint16(data[i:i+2])` -/
def rd16 (data : List Nat) (i : Nat) : Nat := data.getD i 0 + 256 * data.getD (i + 1) 0

/-- the 64-bit pattern of `+Inf` (`math.IsInf(value, 1)` in `EmitDownSamplingValue`) -/
def posInfBits : Nat := 0x7FF0000000000000

structure Enc where
  w : Writer          -- bitWriter; `w.out` is `bitBuffer`
  values : Xor.Enc
  startTime : Nat
  count : Nat
  deriving DecidableEq, Repr

/-- `NewTSDEncoder(startTime)` -/
def Enc.fresh (startTime : Nat) : Enc :=
  { w := Writer.fresh, values := Xor.Enc.fresh, startTime := startTime, count := 0 }

/-- `TSDEncoder.Reset()`: bitBuffer.Reset, bitWriter.Reset(&bitBuffer), values.Reset, timeBitBuf.Reset -/
def Enc.reset (e : Enc) : Enc :=
  { e with w := e.w.reset [], values := e.values.reset }

/-- `RestWithStartTime(startTime)` (also what `GetTSDEncoder` applies to a pooled object) -/
def Enc.resetWithStartTime (e : Enc) (startTime : Nat) : Enc :=
  Enc.reset { e with startTime := startTime, count := 0 }

/-- `AppendTime(slot)` -/
def Enc.appendTime (e : Enc) (bit : Bool) : Enc :=
  { e with w := e.w.writeBit bit, count := u16 (e.count + 1) }

/-- `AppendValue(value)` -/
def Enc.appendValue (e : Enc) (v : Nat) : Enc :=
  let (x, w) := e.values.write e.w v
  { e with w := w, values := x }

/-- `EmitDownSamplingValue(pos, value)` on the bit pattern of `value`: `+Inf` stands for "no value" -/
def Enc.emit (e : Enc) (v : Nat) : Enc :=
  if v = posInfBits then e.appendTime false else (e.appendTime true).appendValue v

/-- `Bytes()`: flush (the writer state is kept), `nil` when no slot was appended, else
`start | start+count-1 | bit buffer` -/
def Enc.bytes (e : Enc) : Option (List Nat) × Enc :=
  let e1 := { e with w := e.w.flush }
  if e1.count = 0 then (none, e1)
  else (some (le16 e1.startTime ++ le16 (u16 (e1.startTime + e1.count + 65535)) ++ e1.w.out), e1)

/-- `BytesWithoutTime()` -/
def Enc.bytesWithoutTime (e : Enc) : List Nat × Enc :=
  let e1 := { e with w := e.w.flush }
  (e1.w.out, e1)

/-- `TSDDecoder`; `inited` = `buf`, `reader`, `values` are non-nil -/
structure Dec where
  inited : Bool
  err : Bool
  r : Reader
  x : Xor.Dec
  startTime : Nat
  endTime : Nat
  idx : Nat
  deriving DecidableEq, Repr

/-- the zero `TSDDecoder{}` (what the pool's `New` creates through `NewTSDDecoder(nil)`) -/
def Dec.zero : Dec :=
  { inited := false, err := false, r := Reader.fresh [], x := Xor.Dec.fresh, startTime := 0, endTime := 0, idx := 0 }

/-- the private `reset(data)` -/
def Dec.reset' (d : Dec) (data : List Nat) : Dec :=
  let d1 :=
    if !d.inited then { d with inited := true, r := Reader.fresh data, x := Xor.Dec.fresh }
    else { d with x := d.x.reset, r := d.r.setBuf data }
  { d1 with idx := 0, err := false }

/-- `Reset(data)` -/
def Dec.reset (d : Dec) (data : List Nat) : Dec :=
  if data.length ≤ 4 then { d with err := true }
  else
    let d := d.reset' data
    { d with startTime := rd16 data 0, endTime := rd16 data 2, r := (d.r.setIdx 4).reset }

/-- `ResetWithTimeRange(data, start, end)` -/
def Dec.resetWithTimeRange (d : Dec) (data : List Nat) (s e : Nat) : Dec :=
  let d := d.reset' data
  { d with startTime := s, endTime := e, r := d.r.reset }

/-- `NewTSDDecoder(data)` -/
def Dec.fresh (data : List Nat) : Dec :=
  if data.length > 4 then Dec.zero.reset data else Dec.zero

/-- the left side of the test in `Next()`: `startTime+idx` computed in `uint16` (wraps at 65536) or,
when the regenerated fact says the source converts to `int` first, without wrap-around -/
def nextKey (wide : Bool) (startTime idx : Nat) : Nat :=
  if wide then startTime + idx else u16 (startTime + idx)

/-- `Next()` -/
def Dec.next (d : Dec) : Bool × Dec :=
  if nextKey Generated.C14.tsdNextWideCompare d.startTime d.idx ≤ d.endTime then
    (true, { d with idx := u16 (d.idx + 1) })
  else (false, d)

/-- `HasValue()` -/
def Dec.hasValue (d : Dec) : Bool × Dec :=
  if !d.inited then (false, d)
  else
    let (b, e, r) := d.r.readBit
    if e then (false, { d with r := r, err := true })
    else (b, { d with r := r })

/-- `HasValueWithSlot(slot)` -/
def Dec.hasValueWithSlot (d : Dec) (slot : Nat) : Bool × Dec :=
  if slot < d.startTime ∨ slot > d.endTime then (false, d)
  else if slot = u16 (d.idx + d.startTime) then Dec.hasValue { d with idx := u16 (d.idx + 1) }
  else (false, d)

/-- `Value()` -/
def Dec.value (d : Dec) : Nat × Dec :=
  if !d.inited then (0, d)
  else
    let (ok, x, r) := d.x.next d.r
    (if ok then x.value else 0, { d with x := x, r := r })

/-- `GetValue(slot)` → `some bits` / `none` -/
def Dec.getValue (d : Dec) (slot : Nat) : Option Nat × Dec :=
  let (h, d) := d.hasValueWithSlot slot
  if !h then (none, d)
  else
    let (v, d) := d.value
    (some v, d)

/-- `Slot()` -/
def Dec.slot (d : Dec) : Nat := u16 (d.startTime + d.idx + 65535)

/-- the loop of `Seek(slot)`; every iteration that does not return increments `idx`, so 65536
iterations suffice (`fuel`). -/
def Dec.seekLoop (slot : Nat) : Nat → Dec → Bool × Dec
  | 0, d => (false, d)
  | fuel + 1, d =>
    if u16 (d.idx + d.startTime) < slot then
      let (h, d1) := d.hasValueWithSlot (u16 (d.idx + d.startTime))
      if h then
        let (_, d2) := d1.value
        Dec.seekLoop slot fuel d2
      else (false, d1)
    else (u16 (d.idx + d.startTime) = slot, d)

/-- `Seek(slot)` -/
def Dec.seek (d : Dec) (slot : Nat) : Bool × Dec :=
  if slot > d.endTime ∨ slot < d.startTime then (false, d)
  else Dec.seekLoop slot 65537 d

end LinVerif.Tsd
