/-
C16 — executable instances of the two hash parameters of the models, used only by the driver
(core Lean only; nothing is proved about them — the theorems quantify over every `H` and every
`jump` with `jump k n < n`; the driver checks `jump k n < n` at run time).

  * `xxh64`    : github.com/cespare/xxhash/v2 Sum64 (XXH64, seed 0)
  * `jumpHash` : github.com/lithammer/go-jump-consistent-hash Hash
-/
namespace LinVerif.Hash64

def p1 : UInt64 := 11400714785074694791
def p2 : UInt64 := 14029467366897019727
def p3 : UInt64 := 1609587929392839161
def p4 : UInt64 := 9650029242287828579
def p5 : UInt64 := 2870177450012600261

def rotl (x : UInt64) (r : UInt64) : UInt64 := (x <<< r) ||| (x >>> (64 - r))

def round (acc input : UInt64) : UInt64 := rotl (acc + input * p2) 31 * p1

def mergeRound (acc v : UInt64) : UInt64 := (acc ^^^ round 0 v) * p1 + p4

/-- little-endian read of `n` bytes at offset `i` -/
def readLE (b : ByteArray) (i n : Nat) : UInt64 :=
  (List.range n).foldl (fun acc k => acc ||| ((b.get! (i + k)).toUInt64 <<< (8 * k).toUInt64)) 0

def stripes (b : ByteArray) : Nat → Nat → UInt64 × UInt64 × UInt64 × UInt64 → UInt64 × UInt64 × UInt64 × UInt64
  | 0, _, v => v
  | k + 1, i, (v1, v2, v3, v4) =>
    stripes b k (i + 32)
      (round v1 (readLE b i 8), round v2 (readLE b (i + 8) 8), round v3 (readLE b (i + 16) 8), round v4 (readLE b (i + 24) 8))

def tail8 (b : ByteArray) : Nat → Nat → UInt64 → UInt64
  | 0, _, h => h
  | k + 1, i, h => tail8 b k (i + 8) (rotl (h ^^^ round 0 (readLE b i 8)) 27 * p1 + p4)

def tail1 (b : ByteArray) : Nat → Nat → UInt64 → UInt64
  | 0, _, h => h
  | k + 1, i, h => tail1 b k (i + 1) (rotl (h ^^^ ((b.get! i).toUInt64 * p5)) 11 * p1)

def xxh64 (b : ByteArray) : UInt64 :=
  let n := b.size
  let nStripes := n / 32
  let h0 : UInt64 :=
    if n ≥ 32 then
      let (v1, v2, v3, v4) := stripes b nStripes 0 (p1 + p2, p2, 0, 0 - p1)
      let h := rotl v1 1 + rotl v2 7 + rotl v3 12 + rotl v4 18
      mergeRound (mergeRound (mergeRound (mergeRound h v1) v2) v3) v4
    else p5
  let h1 := h0 + n.toUInt64
  let i0 := nStripes * 32
  let n8 := (n - i0) / 8
  let h2 := tail8 b n8 i0 h1
  let i1 := i0 + n8 * 8
  let (h3, i2) :=
    if n - i1 ≥ 4 then (rotl (h2 ^^^ (readLE b i1 4 * p1)) 23 * p2 + p3, i1 + 4) else (h2, i1)
  let h4 := tail1 b (n - i2) i2 h3
  let h5 := (h4 ^^^ (h4 >>> 33)) * p2
  let h6 := (h5 ^^^ (h5 >>> 29)) * p3
  h6 ^^^ (h6 >>> 32)

def xxh64Str (s : String) : Nat := (xxh64 s.toUTF8).toNat

def jumpLoop : Nat → UInt64 → Nat → Nat → Nat → Nat
  | 0, _, b, _, _ => b
  | fuel + 1, key, b, j, buckets =>
    if j < buckets then
      let key' := key * 2862933555777941757 + 1
      let j' := (Float.ofNat (j + 1) * (Float.ofNat 2147483648 / Float.ofNat ((key' >>> 33).toNat + 1))).toUInt64.toNat
      jumpLoop fuel key' j j' buckets
    else b

/-- jump.Hash(key, buckets); `buckets ≤ 0` is treated as 1 (so the result is 0) -/
def jumpHash (key : Nat) (buckets : Nat) : Nat :=
  jumpLoop 4096 (UInt64.ofNat key) 0 0 (if buckets = 0 then 1 else buckets)

end LinVerif.Hash64
