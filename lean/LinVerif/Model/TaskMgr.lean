/-
C12 — the broker's task manager between the transport and a task context (core Lean only).

Mirrors query/task_manager.go (AddTask / RemoveTask / Receive: a response whose request id is not
registered is dropped with "request may be evicted", a registered one is handed to
TaskContext.HandleResponse) and the order of query/search.go exec (AddTask — execute the pipeline —
WaitResponse — deferred RemoveTask), over the context model of RootMerge.
-/
import LinVerif.Model.RootMerge

namespace LinVerif.TaskMgr
open LinVerif.RootMerge

/-- what happens around one request id, in the order it happens -/
inductive Ev where
  | add                              -- TaskMgr.AddTask(requestID, ctx)
  | remove                           -- TaskMgr.RemoveTask(requestID)
  | recv (r : Resp)                  -- TaskMgr.Receive(resp) for this request id
  | planDone (e : Option ErrKind)    -- the pipeline's completion callback: ctx.Complete(err)

structure S where
  registered : Bool
  ctx : Ctx
  dropped : Nat

def S.new (n : Nat) : S := { registered := false, ctx := Ctx.new n, dropped := 0 }

def S.step (keep : Bool) (v : Variant) (s : S) : Ev → S
  | .add => { s with registered := true }
  | .remove => { s with registered := false }
  | .recv r =>
    if s.registered then { s with ctx := s.ctx.handle v r }
    else { s with dropped := s.dropped + 1 }
  | .planDone e => { s with ctx := s.ctx.complete keep e }

def S.run (keep : Bool) (v : Variant) (s : S) (evs : List Ev) : S := evs.foldl (S.step keep v) s

/-- the events a registered context sees -/
def toEvent : Ev → Option Event
  | .recv r => some (.resp r)
  | .planDone e => some (.planDone e)
  | _ => none

def isAddRemove : Ev → Bool
  | .add => true
  | .remove => true
  | _ => false

end LinVerif.TaskMgr
