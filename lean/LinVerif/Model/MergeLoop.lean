/-
Four more pieces of the metric-data compaction path (core Lean only):

A. `Pick`    — how `version.PickL0Compaction` collects the level-1 inputs: per level-0 file the
               overlapping level-1 files (`getOverlappingInputs`), put into a Go map keyed by file
               number (kv/version/version.go).
B. `Wrap`    — the slot loop header of `DownSamplingMultiSeriesInto`
               (`for movingSourceSlot := decoder.StartTime(); movingSourceSlot <= decoder.EndTime();
               movingSourceSlot++` with a `uint16` loop variable): slots are numbers modulo 65536.
C. `Reader`  — `fieldReader` (field_reader.go) as `merger.Merge` uses it: ONE reader object per input
               block for the whole merge, `Reset` for a series the block has an entry for, left as it
               is otherwise, `GetFieldData` per target field, `Close` at the end of every series.
D. `Damage`  — the error branches of the merge read path (reader.go `initReader`, `newDataScanner`,
               `nextContainer`, `scan`): which damage fails the merge and which is swallowed.
-/
import LinVerif.Model.Merge

namespace LinVerif.MergeLoop
open LinVerif.Map LinVerif.MetricBlock LinVerif.Merge

/-! ## A. `PickL0Compaction` -/
namespace Pick

variable {α : Type}

/-- `levelUpInputMap[upInput.GetFileNumber()] = upInput` for every file `getOverlappingInputs(1,
lowInput.GetMinKey(), lowInput.GetMaxKey())` returns, for every level-0 input. `num` = file number,
`ov g f` = level-1 file `f` overlaps the key range of level-0 file `g`. -/
def pickLoop (num : α → Nat) (ov : α → α → Bool) (l0 l1 : List α) : List (Nat × α) :=
  l0.foldl (fun m g => (l1.filter (fun f => ov g f)).foldl (fun m f => upsert m (num f) f) m) []

/-- `for _, upInput := range levelUpInputMap { levelUpInputs = append(levelUpInputs, upInput) }`
(in the order of the association list; Go's order is some permutation of it) -/
def picked (num : α → Nat) (ov : α → α → Bool) (l0 l1 : List α) : List α :=
  (pickLoop num ov l0 l1).map Prod.snd

/-- the collection WITHOUT the map: one `append` per level-0 input -/
def pickedNoDedup (ov : α → α → Bool) (l0 l1 : List α) : List α :=
  l0.flatMap (fun g => l1.filter (fun f => ov g f))

end Pick

/-! ## B. the `uint16` slot loop -/
namespace Wrap

variable {σ : Type}

/-- number of `uint16` values -/
def W : Nat := 65536

/-- what one pass through a loop body does with the loop -/
inductive Ctl (σ : Type)
  | next (st : σ)    -- fell through or `continue`
  | brk (st : σ)     -- `break`

/-- `for m := start; m <= stop; m++ { body }` with `m` a `uint16`: `m++` is `(m + 1) mod 65536`.
`fuel` bounds the number of header evaluations; `none` = the loop is still running when the fuel is
used up. -/
def loop16 (body : σ → Nat → Ctl σ) (stop : Nat) : Nat → σ → Nat → Option σ
  | 0, _, _ => none
  | fuel + 1, st, m =>
    if m ≤ stop then
      match body st m with
      | .next st' => loop16 body stop fuel st' ((m + 1) % W)
      | .brk st' => some st'
    else some st

/-- the same loop over unbounded naturals, `n` slots to visit -/
def loopNat (body : σ → Nat → Ctl σ) : σ → Nat → Nat → σ
  | st, _, 0 => st
  | st, m, n + 1 =>
    match body st m with
    | .next st' => loopNat body st' (m + 1) n
    | .brk st' => st'

variable {V : Type}

/-- the body of the decoder loop of `DownSamplingMultiSeriesInto` (the same steps as `Merge.feed`) -/
def feedBody (op : V → V → V) (cfg : Cfg) (tStart len : Nat) (vals : List (Nat × V))
    (acc : List (Nat × V)) (t : Nat) : Ctl (List (Nat × V)) :=
  match lookup vals t with
  | none => .next acc
  | some v =>
    let p : Int := (cfg.baseSlot : Int) + ((t / cfg.ratio : Nat) : Int) - (tStart : Int)
    if p < 0 then .next acc
    else if p ≥ (len : Int) then .brk acc
    else .next (put op acc p.toNat v)

end Wrap

/-! ## C. the reused `fieldReader` -/
namespace Reader

variable {V : Type}

/-- `fieldReader`: `fieldCount = len(fieldIndexes)`, the entry it was last reset with, `completed` -/
structure FR (V : Type) where
  entry : Entry V
  completed : Bool

/-- `newFieldReader(...)` / `Reset(seriesEntry, slotRange)`: `completed = false`, the entry is taken -/
def FR.reset (e : Entry V) : FR V := { entry := e, completed := false }

/-- the data of the only field of a one-field block: the series entry itself -/
def onlyField (fields : List (Nat × FieldType)) (e : Entry V) : Option (List (Nat × V)) :=
  match fields with
  | [fm] => lookup e fm.1
  | _ => none

/-- `GetFieldData(fieldID)`. `shortcutFirst = false` is the code: the field id is looked up in the
block's field index FIRST, the one-field shortcut is taken inside that branch. `shortcutFirst = true`
is the variant that takes the shortcut before the lookup. -/
def FR.get (shortcutFirst : Bool) (fields : List (Nat × FieldType)) (r : FR V) (f : Nat) :
    Option (List (Nat × V)) :=
  if r.completed then none
  else if shortcutFirst && fields.length == 1 then onlyField fields r.entry
  else
    match lookup fields f with
    | none => none
    | some _ => if fields.length == 1 then onlyField fields r.entry else lookup r.entry f

/-- `Close()` -/
def FR.close (r : FR V) : FR V := { r with completed := true }

/-- `fieldReaders[blockIdx]` asked for one target field (`if reader == nil { continue }`) -/
def ask (shortcutFirst : Bool) (fields : List (Nat × FieldType)) (st : Option (FR V)) (f : Nat) :
    Option (List (Nat × V)) :=
  match st with
  | none => none
  | some r => r.get shortcutFirst fields f

/-- one series of `merger.Merge` for ONE input block: `seriesEntry := scanner.scan(...)`;
`len(seriesEntry) == 0` (no entry, or a zero-length one) leaves `fieldReaders[blockIdx]` as it is,
otherwise the reader is created / reset; `seriesMerger.merge` asks it for every target field and
closes it (`closes = true` is the code). Returns the reader kept for the next series and the data
handed to the decoders. -/
def seriesStep (shortcutFirst closes : Bool) (fields : List (Nat × FieldType)) (tf : List Nat)
    (st : Option (FR V)) (eo : Option (Entry V)) : Option (FR V) × List (Option (List (Nat × V))) :=
  let st1 : Option (FR V) :=
    match eo with
    | none => st
    | some e => if zeroLen fields e then st else some (FR.reset e)
  let out := tf.map (ask shortcutFirst fields st1)
  (if closes then st1.map FR.close else st1, out)

/-- the series loop for one input block over what its scanner returns -/
def seriesLoop (shortcutFirst closes : Bool) (fields : List (Nat × FieldType)) (tf : List Nat) :
    Option (FR V) → List (Nat × Option (Entry V)) → List (Nat × List (Option (List (Nat × V))))
  | _, [] => []
  | st, (s, eo) :: r =>
    let x := seriesStep shortcutFirst closes fields tf st eo
    (s, x.2) :: seriesLoop shortcutFirst closes fields tf x.1 r

/-- what the merge theorems use (`Merge.scanData`): the entry's data of a field of the block -/
def dataOf (fields : List (Nat × FieldType)) (eo : Option (Entry V)) (f : Nat) :
    Option (List (Nat × V)) :=
  match eo with
  | none => none
  | some e =>
    match lookup fields f with
    | none => none
    | some _ => lookup e f

end Reader

/-! ## D. damaged input blocks -/
namespace Damage

variable {V : Type}

/-- damage of one input block as the merge read path can notice it -/
structure Dmg where
  /-- `NewReader`/`initReader` returns an error (block not longer than the footer, footer offsets not
  ascending, field count zero, field metas cut, bitmap or high-key offsets not decodable) -/
  header : Bool
  /-- high keys whose series bucket `nextContainer` rejects (`GetBlock` error, `len <= 4`,
  `lowKeyOffsetsAt+4 >= len`, low-key offsets not decodable) -/
  buckets : List Nat

def Dmg.none : Dmg := { header := false, buckets := [] }

/-- `nextContainer` on high key `k` of a possibly damaged block: `highKey` and `container` are set
first; every error branch returns WITHOUT advancing the container index -/
def next (tol : Bool) (b : Block V) (d : Dmg) (sc : Scanner V) (k : Nat) (r : List Nat) : Scanner V × Bool :=
  let sc1 := { sc with hk := k, cont := (bucket b k).map Prod.fst }
  if (deadBucket b k && !tol) || d.buckets.contains k then (sc1, false)
  else ({ sc1 with ents := (bucket b k).map Prod.snd, rest := r }, true)

/-- `NewReader` + `newDataScanner`: `none` = `prepare` returns the error -/
def new (tol : Bool) (b : Block V) (d : Dmg) : Option (Scanner V) :=
  if d.header then none
  else
    match highKeys b with
    | [] => none
    | k :: r =>
      match next tol b d { rest := k :: r, hk := 0, cont := [], ents := [] } k r with
      | (sc, true) => some sc
      | (_, false) => none

/-- `scan`: `if err := s.nextContainer(); err != nil { return nil }` — the error is swallowed -/
def scan (tol : Bool) (b : Block V) (d : Dmg) (sc : Scanner V) (s : Nat) : Scanner V × Option (Entry V) :=
  let step : Scanner V × Bool :=
    if sc.hk < hkOf s then
      match sc.rest with
      | [] => (sc, false)
      | k :: r => next tol b d sc k r
    else (sc, true)
  if !step.2 then (step.1, none)
  else if hkOf s ≠ step.1.hk then (step.1, none)
  else (step.1, pick step.1.cont step.1.ents s)

def scanLoop (tol : Bool) (b : Block V) (d : Dmg) : Scanner V → List Nat → List (Nat × Option (Entry V))
  | _, [] => []
  | sc, s :: r => let x := scan tol b d sc s; (s, x.2) :: scanLoop tol b d x.1 r

def scanAll (tol : Bool) (b : Block V) (d : Dmg) (ids : List Nat) : List (Nat × Option (Entry V)) :=
  match new tol b d with
  | none => []
  | some sc => scanLoop tol b d sc ids

def scanData (tol : Bool) (ids : List Nat) (bd : Block V × Dmg) (s f : Nat) : Option (List (Nat × V)) :=
  match lookup (scanAll tol bd.1 bd.2 ids) s with
  | some (some e) =>
    match lookup bd.1.fields f with
    | none => none
    | some _ => lookup e f
  | _ => none

/-- does `merger.prepare` return an error? -/
def mergeFails (tol : Bool) (bds : List (Block V × Dmg)) : Bool :=
  bds.any (fun bd => (new tol bd.1 bd.2).isNone)

/-- `seriesMerger.merge` for one field over damaged inputs (the same fold as `mergeFieldBy`) -/
def mergeFieldBy (agg : FieldType → V → V → V) (cfg : Cfg) (tStart tEnd : Nat) (ty : FieldType)
    (data : Block V × Dmg → Option (List (Nat × V))) (bds : List (Block V × Dmg)) : List (Nat × V) :=
  let len := tEnd + 1 - tStart
  let acc := bds.foldl (fun acc bd =>
    match data bd with
    | none => acc
    | some vals => feed (agg ty) cfg tStart len vals acc bd.1.start (bd.1.stop + 1 - bd.1.start)) []
  emit acc tStart len

/-- `merger.Merge` over possibly damaged blocks, when `prepare` succeeds: what is written -/
def mergeBlocks (tol : Bool) (agg : FieldType → V → V → V) (bds : List (Block V × Dmg)) : Block V :=
  let bs := bds.map Prod.fst
  let p := prepare bs
  let fields := sortFields p.fields
  { fields := fields, start := p.srcStart, stop := p.srcEnd,
    series := (unionIds bs).map (fun s =>
      (s, fields.map (fun fm =>
        (fm.1, mergeFieldBy agg compactCfg p.srcStart p.srcEnd fm.2
                 (fun bd => scanData tol (unionIds bs) bd s fm.1) bds)))) }

end Damage

end LinVerif.MergeLoop
