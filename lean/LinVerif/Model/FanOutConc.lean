/-
Lock-granularity concurrency of the fan-out layer (core Lean only), on top of Model/FanOut.lean.

1. Two-step `GetOrCreateConsumerGroup`. The method is: look the name up, `NewConsumerGroup`
   (reads the group's meta page and the queue ack, writes the meta page), register the group in
   `consumerGroups`. `crBegin g` = everything up to and including the reads; `crEnd g` = the meta
   write and the registration. In the pinned source all of it runs under `lock4map.Lock`
   (generated facts `getOrCreateLock`, `getOrCreateLockedCalls`), so between the two steps every
   operation that takes `lock4map` — Sync (RLock), create, stop, SetAppendedSeq, Close/reopen — is
   blocked (`locked = true`). `locked = false` is the shape in which the group is built outside the
   map lock (nothing is blocked).

2. Split `Ack` (`ackStore` / `ackPersist`): only used to show what the tie `ack_locked_tie` protects —
   in the pinned source both run inside one read-locked section and are one atomic step (`Op.ack`).
-/
import LinVerif.Model.FanOut

namespace LinVerif.FanOut
open LinVerif.Map

/-- what a `GetOrCreateConsumerGroup` call in flight has read -/
structure Creating where
  g : Nat
  qack : Int            -- q.Queue().AcknowledgedSeq()
  pmeta : Option Meta   -- hasMeta / the two ReadUint64
  deriving DecidableEq, Repr

structure CState where
  s : State
  creating : Option Creating
  deriving DecidableEq, Repr

def CState.init : CState := { s := State.init, creating := none }

inductive COp
  | op (o : Op)
  | crBegin (g : Nat)
  | crEnd (g : Nat)
  deriving DecidableEq, Repr

/-- operations that take `fanOutQueue.lock4map` (read or write) -/
def Op.needsMapLock : Op → Bool
  | .sync => true
  | .create _ => true
  | .stop _ => true
  | .setAppended _ => true
  | .reopen => true
  | _ => false

/-- write the meta page and put the group into the map -/
def State.register (s : State) (g : Nat) (m : Meta) : State :=
  { s with live := upsert s.live g m.toGroup, metas := upsert s.metas g m }

/-- one step; `none` = the step is not enabled (blocked on `lock4map`, or no such call in flight) -/
def cstep (v : Variant) (locked : Bool) (cs : CState) : COp → Option CState
  | .op o =>
    if locked && cs.creating.isSome && o.needsMapLock then none
    else some { cs with s := (step v cs.s o).1 }
  | .crBegin g =>
    match cs.creating with
    | some _ => none
    | none =>
      match lookup cs.s.live g with
      | some _ => some cs       -- found in the map: returned as it is
      | none => some { cs with creating := some { g := g, qack := cs.s.q.ack, pmeta := lookup cs.s.metas g } }
  | .crEnd g =>
    match cs.creating with
    | none => none
    | some c =>
      if c.g = g then
        match lookup cs.s.live g with
        | some _ => some { cs with creating := none }
        | none => some { s := cs.s.register g (newGroup v c.qack c.pmeta), creating := none }
      else none

def crun (v : Variant) (locked : Bool) : CState → List COp → Option CState
  | cs, [] => some cs
  | cs, o :: os =>
    match cstep v locked cs o with
    | none => none
    | some cs' => crun v locked cs' os

/-- the sequential history a concurrent one linearizes to: a two-step create takes effect at its
registration -/
def clin : COp → List Op
  | .op o => [o]
  | .crBegin _ => []
  | .crEnd g => [.create g]

def clinAll : List COp → List Op
  | [] => []
  | o :: os => clin o ++ clinAll os

/-! ### split Ack (the shape the tie `ack_locked_tie` excludes) -/

/-- validate + store under the read lock; the snapshot (hs, ackSeq) that would be persisted later -/
def State.ackStore (s : State) (g : Nat) (n : Int) : State × Option (Int × Int) :=
  match lookup s.live g with
  | none => (s, none)
  | some grp =>
    if n ≥ grp.ack ∧ n ≤ grp.consumed then
      ({ s with live := upsert s.live g { grp with ack := n } }, some (grp.consumed, n))
    else (s, none)

/-- the meta writes from the snapshot, after the lock was released -/
def State.ackPersist (s : State) (g : Nat) (snap : Int × Int) : State :=
  { s with metas := upsert s.metas g { consumed := snap.1, ack := snap.2 } }

end LinVerif.FanOut
