/-
C12, round 13: the time plan of a query — `calcTimeRangeAndInterval` (query/context/utils.go), the
glue RootMetricContext.MakePlan runs on the statement and IntermediateMetricContext.MakePlan runs
AGAIN on the statement it received from the root. Core Lean only. All quantities are milliseconds
as `Nat` (timestamps and configured intervals are non-negative; `statement.Interval <= 0` is `= 0`).
-/
namespace LinVerif.TimePlan

def oneHour : Nat := 3600000
def oneDay : Nat := 24 * oneHour
def oneMonth : Nat := 30 * oneDay

/-- `timeutil.CalcQueryInterval` (pkg/timeutil/interval.go): the automatic interval by range length. -/
def calcQueryInterval (diff q : Nat) : Nat :=
  if diff < oneHour then q
  else if diff < 3 * oneHour then 10000
  else if diff < 6 * oneHour then 30000
  else if diff < 12 * oneHour then 60000
  else if diff < oneDay then 120000
  else if diff < 2 * oneDay then 300000
  else if diff < 7 * oneDay then 600000
  else if diff < oneMonth then oneHour
  else if diff < 2 * oneMonth then 4 * oneHour
  else if diff < 3 * oneMonth then 12 * oneHour
  else oneDay

/-- the greatest configured interval `≤ i` among `ivs`, if any (the loop over the descending sort). -/
def bestLE (i : Nat) : List Nat → Option Nat
  | [] => none
  | v :: vs =>
    match bestLE i vs with
    | none => if v ≤ i then some v else none
    | some b => if v ≤ i ∧ b < v then some v else some b

/-- `DatabaseOption.FindMatchSmallestInterval` (pkg/option/tsdb.go): `Intervals[0]` unless some
configured interval is `≤ interval`, then the greatest such. `first` = `Intervals[0].Interval`. -/
def findMatch (first : Nat) (ivs : List Nat) (i : Nat) : Nat :=
  match bestLE i ivs with
  | some b => b
  | none => first

/-- `timeutil.Truncate`. -/
def truncate (t u : Nat) : Nat := t / u * u

/-- `timeutil.CalIntervalRatio`. -/
def intervalRatio (q s : Nat) : Nat := if s = 0 ∨ q < s then 1 else q / s

/-- the part of `stmt.Query` the function reads and writes. -/
structure Stmt where
  start : Nat
  stop : Nat
  interval : Nat
  storage : Nat
  ratio : Nat
  auto : Bool
  deriving DecidableEq, Repr

/-- which interval the range is truncated by: the code truncates by the storage interval
(`storage`); `queryOrStorage` is the shape "align buckets with the query interval" (the larger of
the two, the query interval BEFORE it is rounded to a multiple of the storage interval). -/
inductive TruncUnit | storage | queryOrStorage
  deriving DecidableEq, Repr

/-- `calcTimeRangeAndInterval(statement, cfg)`, statement by statement. -/
def calcWith (u : TruncUnit) (first : Nat) (ivs : List Nat) (s : Stmt) : Stmt :=
  let interval0 := if s.interval = 0 then first else s.interval
  let interval1 := calcQueryInterval (s.stop - s.start) interval0
  let st := findMatch first ivs interval1
  let unit := match u with
    | .storage => st
    | .queryOrStorage => if interval1 > st then interval1 else st
  let start := truncate s.start unit
  let stop := truncate s.stop unit
  let stmtInterval := if s.auto then (stop - start) + st else s.interval
  let interval2 := if interval1 < stmtInterval then stmtInterval else interval1
  let ratio := intervalRatio interval2 st
  { start := start, stop := stop, interval := st * ratio, storage := st, ratio := ratio, auto := s.auto }

/-- the code as it is. -/
def calcPlan (first : Nat) (ivs : List Nat) (s : Stmt) : Stmt := calcWith .storage first ivs s

/-- `IntermediateMetricContext.MakePlan`'s use of it: `guarded = false` is the code (always plans
again); `guarded = true` is the repaired shape (plans only a statement that carries no storage
interval yet). -/
def intermediatePlan (guarded : Bool) (first : Nat) (ivs : List Nat) (s : Stmt) : Stmt :=
  if guarded && s.storage > 0 then s else calcPlan first ivs s

/-- what a leaf asked directly by the root sees / what a leaf behind an intermediate sees. -/
def leafDirect (first : Nat) (ivs : List Nat) (s : Stmt) : Stmt := calcPlan first ivs s
def leafViaIntermediate (first : Nat) (ivs : List Nat) (s : Stmt) : Stmt := calcPlan first ivs (calcPlan first ivs s)

end LinVerif.TimePlan
