/-
Start-up fault and mutant shapes for C06 (core Lean only), on top of Model/FanOut.lean.

1. `State.reopenFailed`: `NewFanOutQueue` on the same directory when constructing group `g` fails
   (`newPageFactoryFunc` / `AcquirePage` error inside `NewConsumerGroup`): `initConsumerGroups` returns
   the error, the deferred `fq.Close()` closes what was opened, the caller gets `nil, err`. What is
   left behind: the queue was re-read, and the groups listed BEFORE `g` (directory order = ascending
   names) have been through `NewConsumerGroup`, which re-writes their meta pages. Nothing is live.
   The caller retries (`reopen`).
2. Shapes that the ties / the harness exclude, for the proved negations in Props/C06.lean:
   `setAppendedSkip` (index reset skipping groups already at the target), `consumeWithHint` (a cached
   appended position not invalidated by a reset), `reopenSkipping` (a group that fails to load is
   skipped instead of failing the start-up).
-/
import LinVerif.Model.FanOut

namespace LinVerif.FanOut
open LinVerif.Map

/-- the state a failed `NewFanOutQueue` (fault while constructing group `g`) leaves on disk -/
def State.reopenFailed (v : Variant) (s : State) (g : Nat) : State :=
  { q := s.q.reopen,
    live := [],
    metas := s.metas.map (fun p => (p.1, if p.1 < g then newGroup v s.q.reopen.ack (some p.2) else p.2)) }

/-- `Close; NewFanOutQueue` with a one-shot fault on group `g`'s directory, then the retry.
If `g` has no directory nothing fails. -/
def State.reopenFault (v : Variant) (s : State) (g : Nat) : State :=
  match lookup s.metas g with
  | none => s.reopen v
  | some _ => (s.reopenFailed v g).reopen v

/-! ### excluded shapes -/

/-- seeded shape c06-13: the reset loop skips a group whose consumed position equals the target -/
def State.setAppendedSkip (s : State) (n : Int) : State :=
  { q := s.q.setAppended n,
    live := s.live.map (fun p => (p.1, if p.2.consumed = n then p.2 else { p.2 with consumed := n, ack := n })),
    metas := s.metas.map (fun p =>
      match lookup s.live p.1 with
      | some grp => if grp.consumed = n then p else (p.1, { consumed := n, ack := n })
      | none => p) }

/-- seeded shape c06-14: `consume()` trusts a remembered appended position `hint` and asks the queue
only when the head is beyond it. Returns (handed-out sequence, new hint). -/
def consumeWithHint (hint consumed appended : Int) : Option Int × Int :=
  let head := consumed + 1
  let seen := if head > hint then appended else hint
  if head ≤ seen then (some head, seen) else (none, seen)

/-- seeded shape c06-15: start-up skips the group that failed to load -/
def State.reopenSkipping (v : Variant) (s : State) (g : Nat) : State :=
  { q := s.q.reopen,
    metas := reopenMetas v s.q.reopen.ack (s.metas.filter (fun p => p.1 ≠ g)) ++ s.metas.filter (fun p => p.1 = g),
    live := (reopenMetas v s.q.reopen.ack (s.metas.filter (fun p => p.1 ≠ g))).map (fun p => (p.1, p.2.toGroup)) }

end LinVerif.FanOut
