/-
C02 (round 12) — pending-output bookkeeping of a MULTI-OUTPUT compaction against deleteObsoleteFiles.

The interleaving model Model/VersionSet.lean gives a compaction ONE output table.  The real
`compactJob` (kv/compact_job.go) closes an output table whenever it reached `maxFileSize`
(`compactFlusher.afterAdd → finishCompactionOutputFile`) and opens the next one on the following `Add`
(`beforeAdd → openCompactionOutputFile → family.newTableBuilder`).  A finished output is recorded only in
`compactionState.outputs`; it enters a version in `installCompactionResults`; its pending-output mark
(`family.pendingOutputs`) is removed only in `cleanupCompaction`, deferred in `mergeCompaction`, i.e. after
the commit or after the failure.  This file models exactly that bookkeeping, interleaved with any number
of concurrent `family.deleteObsoleteFiles` (list → pending scan → active-version scan → unlink loop).

Atomic steps = the code's critical sections on the shared sets (nextFileNumber, pendingOutputs (sync.Map),
the family directory, the set of tables listed by registered versions).  Everything the big model already
covers in detail (refcounts, snapshots, reader cache, rollup marks, commit internals) is abstracted:
`cur` = tables of the current version, `old` = tables only listed by older, still registered versions
(they leave with `drop`).
-/
namespace LinVerif.CompactOuts

inductive WPhase | idle | merging | installed | failed
deriving DecidableEq, Repr, Inhabited

inductive CPhase | idle | listed | pended | actived
deriving DecidableEq, Repr, Inhabited

/-- one running `family.deleteObsoleteFiles` -/
structure Cleaner where
  phase : CPhase := .idle
  dlist : List Nat := []   -- `listDirFunc(familyPath)` (table numbers)
  live : List Nat := []    -- liveFiles collected so far
  todo : List Nat := []    -- listed tables not in liveFiles, still to evict + unlink
deriving Repr, Inhabited

structure St where
  nextFile : Nat           -- storeVersionSet.nextFileNumber
  disk : List Nat          -- table files in the family directory
  pending : List Nat       -- family.pendingOutputs
  cur : List Nat           -- tables of the current version
  old : List Nat           -- tables listed only by older registered versions
  wphase : WPhase          -- the compaction job
  inputs : List Nat        --   compaction.inputs
  builder : Option Nat     --   compactionState.builder (its file number)
  outputs : List Nat       --   compactionState.outputs
  cl : Nat → Cleaner       -- concurrent deleteObsoleteFiles calls

structure Cfg where
  /-- `finishCompactionOutputFile` itself calls `family.removePendingOutput` (NOT the source's shape:
  regenerated fact `Generated.C02.finishOutputReleasesPending`). -/
  earlyRelease : Bool := false

inductive Act
  | start (ins : List Nat)  -- newCompactionState + compactJob.Run → mergeCompaction (inputs picked from current);
                            --   `start []` … is a FLUSH: storeFlusher (one output, no inputs; Commit = builder.Close,
                            --   commitEditLog, removePendingOutput — the same bookkeeping, order tied by tie_flushCommit)
  | open                    -- compactFlusher.beforeAdd → openCompactionOutputFile → newTableBuilder
  | finish                  -- finishCompactionOutputFile, Count() > 0: Close, addOutputFile, builder = nil
  | finishEmpty             -- finishCompactionOutputFile, Count() == 0: builder = nil only
  | install                 -- installCompactionResults: commitEditLog(delete inputs, add outputs)
  | fail                    -- doMerge / installCompactionResults returned an error
  | cleanup                 -- deferred cleanupCompaction
  | drop (f : Nat)          -- the last older version listing f is released
  | cList (i : Nat)         -- deleteObsoleteFiles: listDirFunc
  | cPend (i : Nat)         --   pendingOutputs.Range
  | cActive (i : Nat)       --   GetAllActiveFiles (+ rollup scan: no marks in this model) ⇒ delete list
  | cDel (i : Nat)          --   Evict + deleteSST of the next table
  | cDone (i : Nat)
deriving Repr

def setCl (s : St) (i : Nat) (c : Cleaner) : St :=
  { s with cl := fun j => if j = i then c else s.cl j }

def step (cfg : Cfg) (s : St) : Act → Option St
  | .start ins =>
    if s.wphase = .idle then
      some { s with wphase := .merging, inputs := ins.filter (· ∈ s.cur), builder := none, outputs := [] }
    else none
  | .open =>
    if s.wphase = .merging ∧ s.builder = none then
      some { s with nextFile := s.nextFile + 1, pending := s.pending ++ [s.nextFile],
                    disk := s.disk ++ [s.nextFile], builder := some s.nextFile }
    else none
  | .finish =>
    if s.wphase = .merging then
      match s.builder with
      | some n =>
        some { s with builder := none, outputs := s.outputs ++ [n],
                      pending := if cfg.earlyRelease then s.pending.filter (· ≠ n) else s.pending }
      | none => none
    else none
  | .finishEmpty =>
    if s.wphase = .merging ∧ s.builder ≠ none then some { s with builder := none } else none
  | .install =>
    if s.wphase = .merging ∧ s.builder = none then
      some { s with wphase := .installed, nextFile := s.nextFile + 1,  -- the commit logs NextFileNumber(n+1)
                    cur := s.cur.filter (· ∉ s.inputs) ++ s.outputs,
                    old := s.old ++ s.cur.filter (· ∈ s.inputs) }
    else none
  | .fail => if s.wphase = .merging then some { s with wphase := .failed } else none
  | .cleanup =>
    if s.wphase = .installed ∨ s.wphase = .failed then
      -- builder.Abandon() only closes the writer: the half-written table stays in the directory (unmarked,
      -- unlisted) until the next deleteObsoleteFiles unlinks it
      let pend := match s.builder with
        | some n => s.pending.filter (· ≠ n)
        | none => s.pending
      some { s with wphase := .idle, pending := pend.filter (· ∉ s.outputs),
                    builder := none, outputs := [], inputs := [] }
    else none
  | .drop f => if f ∈ s.cur then none else some { s with old := s.old.filter (· ≠ f) }
  | .cList i =>
    if (s.cl i).phase = .idle then some (setCl s i { phase := .listed, dlist := s.disk }) else none
  | .cPend i =>
    if (s.cl i).phase = .listed then some (setCl s i { phase := .pended, dlist := (s.cl i).dlist, live := s.pending })
    else none
  | .cActive i =>
    if (s.cl i).phase = .pended then
      let c := s.cl i
      let lv := c.live ++ s.cur ++ s.old
      some (setCl s i { phase := .actived, dlist := c.dlist, live := lv, todo := c.dlist.filter (· ∉ lv) })
    else none
  | .cDel i =>
    if (s.cl i).phase = .actived then
      match (s.cl i).todo with
      | f :: rest => some (setCl { s with disk := s.disk.filter (· ≠ f) } i { phase := .actived, dlist := (s.cl i).dlist, live := (s.cl i).live, todo := rest })
      | [] => none
    else none
  | .cDone i =>
    if (s.cl i).phase = .actived ∧ (s.cl i).todo = [] then some (setCl s i {}) else none

/-- a family whose current version lists `tables` (all on disk), nothing running -/
def init (tables : List Nat) (nextFile : Nat) : St :=
  { nextFile := nextFile, disk := tables, pending := [], cur := tables, old := [], wphase := .idle,
    inputs := [], builder := none, outputs := [], cl := fun _ => {} }

def run (cfg : Cfg) (s : St) : List Act → Option St
  | [] => some s
  | a :: as => match step cfg s a with
    | some s' => run cfg s' as
    | none => none

inductive Reachable (cfg : Cfg) (tables : List Nat) (nf : Nat) : St → Prop
  | init : Reachable cfg tables nf (init tables nf)
  | step {s s' : St} (a : Act) : Reachable cfg tables nf s → step cfg s a = some s' → Reachable cfg tables nf s'

/-- the job owns table f: its open builder or one of its finished, not yet installed outputs -/
def Owned (s : St) (f : Nat) : Prop := s.wphase = .merging ∧ (s.builder = some f ∨ f ∈ s.outputs)

/-- f is needed: listed by a registered version, or owned by the unfinished compaction -/
def Needed (s : St) (f : Nat) : Prop := f ∈ s.cur ∨ f ∈ s.old ∨ Owned s f

namespace Code
/-- the only function of compact_job.go that calls family.removePendingOutput, once per call site -/
def releaseSites : List String := ["cleanupCompaction", "cleanupCompaction"]
/-- finishCompactionOutputFile, calls in source order -/
def finishOutput : List String :=
  ["defer{", "}", "builder.Count", "builder.Close", "state.addOutputFile"]
/-- openCompactionOutputFile: the number is allocated, marked pending and the file created by
family.newTableBuilder (its order is `tie_newTableBuilder`) -/
def openOutput : List String := ["family.newTableBuilder"]
/-- EVERY place of package kv that touches `family.pendingOutputs` ("<file>:<func>:<call>"): the mark is set in
newTableBuilder only (the model's `open`), released by cleanupCompaction (`cleanup`) and by storeFlusher.Commit (the
flush's `cleanup`), read by deleteObsoleteFiles (`cPend`); nothing else — in particular not `finish` / `install`. -/
def pendingMarkSites : List String :=
  ["compact_job.go:cleanupCompaction:removePendingOutput", "compact_job.go:cleanupCompaction:removePendingOutput",
   "family.go:newTableBuilder:addPendingOutput", "family.go:addPendingOutput:pendingOutputs.Store",
   "family.go:removePendingOutput:pendingOutputs.Delete", "family.go:deleteObsoleteFiles:pendingOutputs.Range",
   "flusher.go:Commit:removePendingOutput"]
end Code

end LinVerif.CompactOuts
