/-
C13 — writers interleaved with the lifecycle task's `EvictSegment` (core Lean only).

  tsdb/shard.go             shard.GetOrCrateDataFamily(t):
                               segment := s.segment.GetOrCreateSegment(GetSegment(t))         -- l0
                               verifhook.Yield("tsdb.shard.getOrCrateDataFamily.afterSegment")
                               for _, rollupSegment := range s.rollupTargets {                -- reopen
                                   rollupSegment.GetOrCreateSegment(GetSegment(t)) }          --  (rollupTargets contains the
                                                                                              --   writable interval segment itself)
                               family := segment.GetOrCreateDataFamily(t)                     -- l1 (on the object of l0!)
                            shard.EvictSegment(): every rollupTargets[..].EvictSegment()
  tsdb/interval_segment.go  intervalSegment.EvictSegment: mutex.Lock; for every registered segment:
                               NeedEvict() (= len(families) == 0) -> segment.Close(); delete(segments, name)
  tsdb/segment.go           segment.Close(): closes the kv store, the Segment object stays usable;
                            segment.GetOrCreateDataFamily: families[familyTime] hit -> return;
                               kvStore.GetFamily(name) (the store object's own family table), nil ->
                               kvStore.CreateFamily: family dir exists -> newFamily with the option of
                               storeInfo (absent: zero option -> error "merger ... not implement");
                               else storeInfo.Families[name] = option; dump OPTIONS; mkdir
  kv/store.go               newStore: OPTIONS exists -> every family of it is opened (the store knows it)

Each of the three get-or-creates of a writer is one critical section (step `l0`, `reopen`, `l1`); an
`evict` step is one critical section of the interval segment's mutex. The kv store object of a segment
object is modelled by what it knows (`info`: storeInfo.Families / families of THAT store object), the
OPTIONS file of a segment directory (`options`, rewritten from the dumping store's own table) and the
family directories (`paths`).
-/
import LinVerif.Model.GetOrCreate

namespace LinVerif.Interval

inductive EPc where
  | l0 | reopen | l1 | fin
  deriving DecidableEq, Repr

structure EThread where
  ts : Int
  seg : Int
  fam : Int
  pc : EPc := .l0
  segObj : Option Nat := none
  famObj : Option Nat := none
  /-- `GetOrCrateDataFamily` returned an error (family creation failed) -/
  err : Bool := false
  deriving DecidableEq, Repr

structure EShared where
  map : List (GKey × Nat) := []
  next : Nat := 0
  /-- segment objects whose `Close()` ran (kv store closed, object unregistered) -/
  closed : List Nat := []
  /-- `(segment object, family index)`: the kv store object of that segment object knows the family -/
  info : List (Nat × Int) := []
  /-- OPTIONS file per segment directory (newest first): the families persisted in it -/
  options : List (Int × List Int) := []
  /-- family directories that exist: `(segmentTime, family index)` -/
  paths : List (Int × Int) := []
  opened : Nat := 0
  deriving Repr

structure EState where
  sh : EShared := {}
  threads : List EThread := []
  deriving Repr

def mkEThread (c : Calc) (t : Int) : EThread :=
  { ts := t, seg := calcSegmentTime c t, fam := calcFamily c t (calcSegmentTime c t) }

/-- the families of the timestamps `pre` exist on disk (written and persisted by an earlier session),
no segment is open -/
def eInit (c : Calc) (ts pre : List Int) : EState :=
  let sh := pre.foldl (fun (sh : EShared) t =>
      let seg := calcSegmentTime c t
      let fam := calcFamily c t seg
      { sh with options := (seg, fam :: ((sh.options.lookup seg).getD [])) :: sh.options
                paths := (seg, fam) :: sh.paths }) {}
  { sh := sh, threads := ts.map (mkEThread c) }

/-- `intervalSegment.GetOrCreateSegment(name)`: one critical section; a new segment object opens a kv
store object that knows the families of the OPTIONS file (no file: a new store without families) -/
def eGetSegment (sh : EShared) (seg : Int) : EShared × Nat :=
  match gLookup (0, seg) sh.map with
  | some o => (sh, o)
  | none =>
    let fams := match sh.options.lookup seg with
      | some l => l
      | none => []
    ({ sh with map := gStore (0, seg) sh.next sh.map, next := sh.next + 1, opened := sh.opened + 1
               info := fams.map (fun f => (sh.next, f)) ++ sh.info }, sh.next)

/-- `segment.GetOrCreateDataFamily` on segment object `so` (open or closed): `none` = error -/
def eGetFamily (sh : EShared) (so : Nat) (seg fam : Int) : EShared × Option Nat :=
  match gLookup (so + 1, fam) sh.map with
  | some o => (sh, some o)
  | none =>
    if (so, fam) ∈ sh.info then
      ({ sh with map := gStore (so + 1, fam) sh.next sh.map, next := sh.next + 1 }, some sh.next)
    else if (seg, fam) ∈ sh.paths then (sh, none)
    else
      let info' := (so, fam) :: sh.info
      ({ sh with map := gStore (so + 1, fam) sh.next sh.map, next := sh.next + 1, info := info'
                 options := (seg, (info'.filter (fun p => p.1 = so)).map (·.2)) :: sh.options
                 paths := (seg, fam) :: sh.paths }, some sh.next)

/-- one atomic step of a writer -/
def eStepThread (sh : EShared) (t : EThread) : EShared × EThread :=
  match t.pc with
  | .l0 => ((eGetSegment sh t.seg).1, { t with segObj := some (eGetSegment sh t.seg).2, pc := .reopen })
  | .reopen => ((eGetSegment sh t.seg).1, { t with pc := .l1 })
  | .l1 =>
    match t.segObj with
    | none => (sh, t)
    | some so =>
      match (eGetFamily sh so t.seg t.fam).2 with
      | some o => ((eGetFamily sh so t.seg t.fam).1, { t with famObj := some o, pc := .fin })
      | none => ((eGetFamily sh so t.seg t.fam).1, { t with err := true, pc := .fin })
  | .fin => (sh, t)

/-- `segment.NeedEvict()` of segment object `so`: no family object registered in it -/
def eHasFamily (m : List (GKey × Nat)) (so : Nat) : Bool := m.any (fun kv => kv.1.1 == so + 1)

/-- a binding of the `segments` map whose segment object is evicted -/
def eEvictable (m : List (GKey × Nat)) (kv : GKey × Nat) : Bool := kv.1.1 == 0 && !eHasFamily m kv.2

/-- `intervalSegment.EvictSegment()`: one critical section -/
def eEvict (sh : EShared) : EShared :=
  { sh with closed := (sh.map.filter (eEvictable sh.map)).map (·.2) ++ sh.closed
            map := sh.map.filter (fun kv => !eEvictable sh.map kv) }

inductive EStep where
  | w (i : Nat)
  | evict
  deriving DecidableEq, Repr

def eStepAt (s : EState) : EStep → EState
  | .evict => { s with sh := eEvict s.sh }
  | .w i =>
    match s.threads[i]? with
    | none => s
    | some t => { sh := (eStepThread s.sh t).1, threads := s.threads.set i (eStepThread s.sh t).2 }

def eRun (s : EState) (sched : List EStep) : EState := sched.foldl eStepAt s

/-- every writer to completion in index order (three steps each) -/
def eDrain (s : EState) : EState :=
  (List.range s.threads.length).foldl
    (fun s i => (List.range 3).foldl (fun s _ => eStepAt s (.w i)) s) s

/-- the family object registered for the thread's timestamp (what a later writer / a flush resolves) -/
def eRegistered (s : EState) (t : EThread) : Option Nat :=
  match gLookup (0, t.seg) s.sh.map with
  | none => none
  | some so => gLookup (so + 1, t.fam) s.sh.map

/-- no writer stands between its first get-or-create and its return -/
def eQuiescent (s : EState) : Bool := s.threads.all fun t => t.pc == .l0 || t.pc == .fin

/-- every `evict` step of the schedule happens in a quiescent state -/
def evictsQuiescent : EState → List EStep → Bool
  | _, [] => true
  | s, .evict :: r => eQuiescent s && evictsQuiescent (eStepAt s .evict) r
  | s, .w i :: r => evictsQuiescent (eStepAt s (.w i)) r

/-- the scheduling granularity of the harness: the real code has no scheduling point between the
`reopen` loop and `l1`, so a scheduled writer that has passed `l0` runs both -/
def eHarnessStep (s : EState) (st : EStep) : EState :=
  match st with
  | .evict => eStepAt s .evict
  | .w i =>
    match s.threads[i]? with
    | none => s
    | some t => if t.pc = .l0 then eStepAt s (.w i) else eStepAt (eStepAt s (.w i)) (.w i)

end LinVerif.Interval
