/-
Abstract JSON values and the typed field decoders that jsoniter's struct decoding amounts to
(C17). Core Lean only.

The JSON *text* layer (jsoniter `Marshal`/`Unmarshal`, strconv float/integer formatting,
string escaping, `json.RawMessage` splicing) is NOT modelled here: it is the `TextCodec`
parameter of `Props/C17.lean`. An abstract value is what a text denotes once numbers are typed
by the Go field they are decoded into (`int`/`int64`/enum fields -> `int`, `float64` -> `flt`).

Go anchors: github.com/lindb/common/pkg/encoding.JSONMarshal/JSONUnmarshal
(jsoniter.ConfigCompatibleWithStandardLibrary), sql/stmt/expr.go, sql/stmt/query.go.
-/
namespace LinVerif.Json

/-- A float64 given by its IEEE-754 bit pattern (sign 1, exponent 11, fraction 52). -/
structure F64 where
  bits : Nat
  deriving DecidableEq, Repr, Inhabited

/-- exponent field all ones = NaN or ±Inf: the values `json.Marshal` refuses
("unsupported value"). -/
def F64.isFinite (f : F64) : Bool := (f.bits / 2 ^ 52) % 2048 != 2047

def F64.zero : F64 := ⟨0⟩
def F64.posInf : F64 := ⟨0x7FF0000000000000⟩
def F64.negInf : F64 := ⟨0xFFF0000000000000⟩
def F64.nan : F64 := ⟨0x7FF8000000000001⟩

/-- Abstract JSON value; object fields keep their order (struct field order in Go). -/
inductive Json where
  | null
  | bool (b : Bool)
  | int (i : Int)
  | flt (f : F64)
  | str (s : String)
  | arr (xs : List Json)
  | obj (kvs : List (String × Json))
  deriving Repr, Inhabited

/-- Errors of the unmarshal side, as the small enum the harness maps Go errors to. -/
inductive Err where
  /-- any jsoniter decoding error (empty RawMessage, wrong JSON kind for a typed field) -/
  | syntax
  /-- `fmt.Errorf("expr type not match:%s", tag)` in `stmt.Unmarshal` -/
  | typeTag (tag : String)
  /-- `timeutil.ErrUnknownInterval` from `Interval.ValueOf` -/
  | intervalUnknown
  /-- `errors.New("invalid interval")` from `Interval.UnmarshalJSON` (value is not a string) -/
  | intervalInvalid
  deriving DecidableEq, Repr, Inhabited

abbrev Fields := List (String × Json)

/-- jsoniter struct decoding: a later duplicate key overwrites an earlier one, so the
effective value of a key is its LAST occurrence. -/
def lookup (kvs : Fields) (k : String) : Option Json :=
  match kvs with
  | [] => none
  | (k', v) :: rest =>
    match lookup rest k with
    | some w => some w
    | none => if k' = k then some v else none

/-- `string` field: absent or `null` leaves the zero value. -/
def getStr (kvs : Fields) (k : String) : Except Err String :=
  match lookup kvs k with
  | none => .ok ""
  | some .null => .ok ""
  | some (.str s) => .ok s
  | some _ => .error .syntax

/-- `int` / enum field. -/
def getInt (kvs : Fields) (k : String) : Except Err Int :=
  match lookup kvs k with
  | none => .ok 0
  | some .null => .ok 0
  | some (.int i) => .ok i
  | some _ => .error .syntax

/-- `uint8` field (`MetricMetadataType`): a number outside 0..255 is a decoding error. -/
def getU8 (kvs : Fields) (k : String) : Except Err Nat :=
  match lookup kvs k with
  | none => .ok 0
  | some .null => .ok 0
  | some (.int i) => if 0 ≤ i ∧ i < 256 then .ok i.toNat else .error .syntax
  | some _ => .error .syntax

/-- `bool` field. -/
def getBool (kvs : Fields) (k : String) : Except Err Bool :=
  match lookup kvs k with
  | none => .ok false
  | some .null => .ok false
  | some (.bool b) => .ok b
  | some _ => .error .syntax

/-- `float64` field (numbers under a float field are always typed `flt` by the text layer). -/
def getFlt (kvs : Fields) (k : String) : Except Err F64 :=
  match lookup kvs k with
  | none => .ok F64.zero
  | some .null => .ok F64.zero
  | some (.flt f) => .ok f
  | some _ => .error .syntax

def strElems : List Json → Except Err (List String)
  | [] => .ok []
  | .str s :: rest => (strElems rest).map (s :: ·)
  | .null :: rest => (strElems rest).map ("" :: ·)
  | _ :: _ => .error .syntax

/-- `[]string` field (Go's nil and empty slice are both `[]` here). -/
def getStrList (kvs : Fields) (k : String) : Except Err (List String) :=
  match lookup kvs k with
  | none => .ok []
  | some .null => .ok []
  | some (.arr xs) => strElems xs
  | some _ => .error .syntax

/-- a `json.RawMessage` holding `null` is stored as the empty message (`none`) -/
def rawElem : Json → Option Json
  | .null => none
  | v => some v

/-- `json.RawMessage` field: absent or `null` gives the empty message (`none`). -/
def getRaw (kvs : Fields) (k : String) : Option Json :=
  match lookup kvs k with
  | none => none
  | some v => rawElem v

/-- `[]json.RawMessage` field. -/
def getRawList (kvs : Fields) (k : String) : Except Err (List (Option Json)) :=
  match lookup kvs k with
  | none => .ok []
  | some .null => .ok []
  | some (.arr xs) => .ok (xs.map rawElem)
  | some _ => .error .syntax

/-- Decoding `value` into a struct: `null` is a no-op (zero struct), an object gives its
fields, anything else is a decoding error. -/
def structFields : Json → Except Err Fields
  | .null => .ok []
  | .obj kvs => .ok kvs
  | _ => .error .syntax

/-- A nested struct-typed field (`timeutil.TimeRange`). -/
def getStruct (kvs : Fields) (k : String) : Except Err Fields :=
  match lookup kvs k with
  | none => .ok []
  | some v => structFields v

mutual
/-- every float in the value is finite (what the encoder can print) -/
def Json.wireOk : Json → Bool
  | .flt f => f.isFinite
  | .arr xs => wireOkList xs
  | .obj kvs => wireOkFields kvs
  | _ => true
def wireOkList : List Json → Bool
  | [] => true
  | x :: xs => x.wireOk && wireOkList xs
def wireOkFields : List (String × Json) → Bool
  | [] => true
  | (_, v) :: rest => v.wireOk && wireOkFields rest
end

end LinVerif.Json
