/-
Layer 1 of the C20 model: the compressed trie of pkg/trie as an inductive tree (core Lean only).

The tree is produced by the SAME recursion as `builder.buildNodes` (builder.go) and queried by
tree versions of `trie.Get` (trie.go), `Iterator.SeekToFirst/Next/Key/Value`, `Iterator.Seek`
and `PrefixIterator` (iterator.go).

Conventions
* a byte is a `Nat` (the theorems assume `< 256` where it matters); a key is `List Nat`;
  a value is a `Nat` (uint32 in Go; never computed with).
* Go's `buildNodes(keys, vals, prefixDepth, depth, level)` keeps whole keys and an index
  `depth`; the model keeps `key[depth:]` for every key of the current group and the bytes
  `keys[0][prefixDepth:depth]` collected so far as `pfx`.
* exactly like the Go encoding, a tree node is a prefix plus a row of labelled entries; the
  "terminator" entry of a key that ends at the node is NOT a separate constructor: it is the
  entry `leaf 255 [] v` placed first (`labelTerminator = 0xff`), indistinguishable from the
  entry of a real key byte 0xff without suffix except by its position. The query functions
  below use the same positional tests as the Go code (`Get`: first label is 0xff and has no
  child; iterator: label 0xff, no child, not the last label of its node).
-/
namespace LinVerif.TrieTree

abbrev Key := List Nat
abbrev KV := Key × Nat

/-- `labelTerminator` (label_vector.go) -/
def labelTerminator : Nat := 255

/-! ### byte-string order (`bytes.Compare`) -/

def keyCmp : Key → Key → Ordering
  | [], [] => .eq
  | [], _ :: _ => .lt
  | _ :: _, [] => .gt
  | a :: as, b :: bs => if a < b then .lt else if b < a then .gt else keyCmp as bs

def keyLt (a b : Key) : Bool := keyCmp a b == .lt

/-- `bytes.HasPrefix(k, p)` -/
def hasPrefix : Key → Key → Bool
  | [], _ => true
  | _ :: _, [] => false
  | a :: p, b :: k => a == b && hasPrefix p k

/-- `prefixVector.CheckPrefix`: the node prefix must be a prefix of the rest of the key; returns
the rest of the key after it. -/
def stripPrefix : List Nat → Key → Option Key
  | [], k => some k
  | _ :: _, [] => none
  | a :: p, b :: k => if a == b then stripPrefix p k else none

/-! ### the tree -/

mutual
  /-- one trie node: compressed path + its row of labels -/
  inductive Node where
    | mk (pfx : List Nat) (es : Entries)
  /-- the labels of a node, left to right. `leaf`: `hasChild` bit clear (suffix + value);
  `child`: `hasChild` bit set. -/
  inductive Entries where
    | nil
    | leaf (label : Nat) (suffix : List Nat) (val : Nat) (rest : Entries)
    | child (label : Nat) (n : Node) (rest : Entries)
end

def Entries.isNil : Entries → Bool
  | .nil => true
  | _ => false

def Entries.length : Entries → Nat
  | .nil => 0
  | .leaf _ _ _ r => r.length + 1
  | .child _ _ r => r.length + 1

def Node.entries : Node → Entries
  | .mk _ es => es

def Node.pfx : Node → List Nat
  | .mk p _ => p

/-! ### build (builder.go `buildNodes`) -/

/-- the label `keys[i][depth]` of every key of the group -/
def heads (kvs : List KV) : List Nat := kvs.map (fun kv => kv.1.headD 0)

/-- every key one byte deeper -/
def tails (kvs : List KV) : List KV := kvs.map (fun kv => (kv.1.tail, kv.2))

/-- The group scan of the `for groupEnd := groupStart; …` loop for the label `cur`, on the labels
from `groupEnd` on; result = how many further keys belong to the group.
Includes the shortcut `skipEnd := groupEnd + 4; if skipEnd < keysLen && currentKey ==
keys[skipEnd][depth] { groupEnd = skipEnd; continue }` (5 keys are taken at once on the strength of
the 5th label alone — sound only because the keys are sorted). -/
def scanGroup (cur : Nat) : List Nat → Nat
  | a :: b :: c :: d :: e :: t =>
    if e == cur then 5 + scanGroup cur t
    else if a == cur then 1 + scanGroup cur (b :: c :: d :: e :: t)
    else 0
  | a :: t => if a == cur then 1 + scanGroup cur t else 0
  | [] => 0

/-- total size of a group: recursion measure of `buildNodes` -/
def kvSize : List KV → Nat
  | [] => 0
  | kv :: r => kv.1.length + 1 + kvSize r

mutual
  /-- `buildNodes(keys, vals, prefixDepth, depth, level)` for one node. `none` = the Go code
  panics (index out of range). `fuel` only makes the recursion structural; `build` supplies
  enough. -/
  def buildNode : Nat → List Nat → List KV → Option Node
    | 0, _, _ => none
    | fuel + 1, pfx, kvs =>
      match kvs with
      | [] => none                                   -- keys[groupStart]: index out of range
      | (k0, v0) :: rest =>
        match k0 with
        | [] =>                                      -- depth >= len(keys[0]): terminator label
          match rest with
          | [] => none                               -- keys[1][depth]: index out of range
          | _ :: _ =>
            if rest.any (fun kv => kv.1.isEmpty) then none     -- keys[i][depth] out of range
            else (buildEntries fuel rest).map (fun es => Node.mk pfx (Entries.leaf labelTerminator [] v0 es))
        | c :: _ =>
          if kvs.any (fun kv => kv.1.isEmpty) then none
          else
            let w := scanGroup c (heads kvs)
            if w == kvs.length && w != 1 then
              -- groupEnd == keysLen && groupStart == 0 && width != 1: one-way node, compress
              buildNode fuel (pfx ++ [c]) (tails kvs)
            else (buildEntries fuel kvs).map (fun es => Node.mk pfx es)
  /-- the rest of the group loop from `groupStart` on: one entry per label group -/
  def buildEntries : Nat → List KV → Option Entries
    | 0, _ => none
    | fuel + 1, kvs =>
      match kvs with
      | [] => some Entries.nil
      | (k, v) :: _ =>
        let c := k.headD 0
        let w := scanGroup c (heads kvs)
        if w == 1 then
          -- width == 1: value (+ suffix keys[groupStart][nextDepth:])
          (buildEntries fuel (kvs.drop 1)).map (fun es => Entries.leaf c k.tail v es)
        else
          match buildNode fuel [] (tails (kvs.take w)), buildEntries fuel (kvs.drop w) with
          | some n, some es => some (Entries.child c n es)
          | _, _ => none
end

/-- `builder.Build(keys, vals)` followed by `Trie()` -/
def build (kvs : List KV) : Option Node := buildNode (2 * kvSize kvs + 2) [] kvs

/-! ### Get (trie.go) -/

mutual
  /-- `trie.Get` from a node on; `key` = the part of the key not yet consumed.
  `eon` = the source variant (regenerated fact `getChecksEndOfNode`): `false` = the terminator test
  is `GetLabel(pos) == labelTerminator && !hasChild(pos)`; `true` = it also has `!isEndOfNode(pos)`
  (fixes/C20-get-terminator-not-end-of-node.patch). -/
  def getNode (eon : Bool) : Node → Key → Option Nat
    | .mk pfx es, key =>
      match stripPrefix pfx key with
      | none => none                                    -- CheckPrefix failed
      | some [] =>
        -- key exhausted: `labelVec.GetLabel(pos) == labelTerminator && !hasChildVec.IsSet(pos)`
        -- then CheckSuffix with depth >= len(key): the suffix must be empty
        match es with
        | .leaf l suf v r =>
          if l == labelTerminator && suf.isEmpty && (!eon || !r.isNil) then some v else none
        | _ => none
      | some (c :: rest) =>
        -- labelVector.Search: `if size > 1 && labels[start] == labelTerminator { start++ }`
        match es with
        | .leaf l suf v r =>
          if l == labelTerminator && !r.isNil then getEntries eon r c rest
          else if l == c then (if suf == rest then some v else none)
          else getEntries eon r c rest
        | .child l n r =>
          if l == labelTerminator && !r.isNil then getEntries eon r c rest
          else if l == c then getNode eon n rest
          else getEntries eon r c rest
        | .nil => none
  /-- `bytes.IndexByte` over the labels of the node, fused with what `Get` does at the hit -/
  def getEntries (eon : Bool) : Entries → Nat → Key → Option Nat
    | .nil, _, _ => none
    | .leaf l suf v r, c, rest =>
      if l == c then (if suf == rest then some v else none)        -- CheckSuffix
      else getEntries eon r c rest
    | .child l n r, c, rest =>
      if l == c then getNode eon n rest else getEntries eon r c rest
end

/-! ### ordered iteration (iterator.go SeekToFirst / Next / Key / Value) -/

mutual
  /-- all pairs below a node in iteration order; `path` = key bytes above the node -/
  def iterNode (path : Key) : Node → List KV
    | .mk pfx es => iterEntries (path ++ pfx) es
  /-- `Key()`: `keyBuf` (+ suffix); `atTerminator` (label 0xff, no child, `!isEndOfNode`) drops
  the label byte again -/
  def iterEntries (base : Key) : Entries → List KV
    | .nil => []
    | .leaf l suf v r =>
      (if l == labelTerminator && !r.isNil then (base ++ suf, v) else (base ++ l :: suf, v))
        :: iterEntries base r
    | .child l n r => iterNode (base ++ [l]) n ++ iterEntries base r
end

def iter (t : Node) : List KV := iterNode [] t

/-! ### Seek (iterator.go `seek`, `Seek`) -/

/-- `labelVector.SearchGreaterThan` + `moveToLeftInNextSubTrie`: everything from the first label
greater than `c` on (the Go code binary-searches; the labels of a node are increasing) -/
def entriesGreater (base : Key) (c : Nat) : Entries → List KV
  | .nil => []
  | .leaf l suf v r =>
    if c < l then iterEntries base (.leaf l suf v r) else entriesGreater base c r
  | .child l n r =>
    if c < l then iterEntries base (.child l n r) else entriesGreater base c r

/-- the last pair of a list, as a list (`moveToRightMostKey` below the current position) -/
def lastKV (l : List KV) : List KV :=
  match l.getLast? with
  | some kv => [kv]
  | none => []

/-- `moveToLeftInNextSubTrie`: leftmost key below the first greater label; when there is none the
Go code appends the node's last label and calls `it.Next()`, which returns at once because
`it.valid` is still false, and `Seek`'s `if !it.valid { it.moveToRightMostKey() }` then descends to
the rightmost key below that last label: the LAST key of the node. -/
def greaterOrLast (base : Key) (c : Nat) (all sub : Entries) : List KV :=
  match entriesGreater base c sub with
  | [] => lastKV (iterEntries base all)
  | l => l

mutual
  /-- `Iterator.seek` + the `moveToRightMostKey` fallback of `Seek` below one node: (the returned
  flag, the pairs of this subtree from the landing position on). -/
  def seekNode (path : Key) : Node → Key → Bool × List KV
    | .mk pfx es, key =>
      let base := path ++ pfx
      match keyCmp pfx (key.take pfx.length) with
      | .lt =>
        -- prefixCmp < 0: `it.level--; it.Next()` (a no-op: `it.valid` is false), then
        -- `moveToRightMostKey` from the parent's label: the last key below this node
        -- (at level 0: `keyBuf` is empty, the last key of the trie)
        (false, lastKV (iterEntries base es))
      | .gt => (false, iterEntries base es)              -- prefixCmp > 0: leftmost key below
      | .eq =>
        match key.drop pfx.length with
        | [] => (false, iterEntries base es)             -- depth >= len(key)
        | c :: rest =>
          match es with
          | .nil => (false, [])
          | .leaf l suf v r =>
            if l == labelTerminator && !r.isNil then
              (match seekEntries base r c rest with
               | some x => x
               | none => (false, greaterOrLast base c (.leaf l suf v r) r))
            else
              (match seekEntries base (.leaf l suf v r) c rest with
               | some x => x
               | none => (false, greaterOrLast base c (.leaf l suf v r) (.leaf l suf v r)))
          | .child l n r =>
            if l == labelTerminator && !r.isNil then
              (match seekEntries base r c rest with
               | some x => x
               | none => (false, greaterOrLast base c (.child l n r) r))
            else
              (match seekEntries base (.child l n r) c rest with
               | some x => x
               | none => (false, greaterOrLast base c (.child l n r) (.child l n r)))
  /-- `labelVec.Search` hit: leaf → stay there (`moveToRightMostKey` only sets `valid`), flag =
  `CheckSuffix`; child → descend, the following labels come after the subtree.
  `none` = label not found. -/
  def seekEntries (base : Key) : Entries → Nat → Key → Option (Bool × List KV)
    | .nil, _, _ => none
    | .leaf l suf v r, c, rest =>
      if l == c then some (suf == rest, iterEntries base (.leaf l suf v r))
      else seekEntries base r c rest
    | .child l n r, c, rest =>
      if l == c then
        let (fp, xs) := seekNode (base ++ [l]) n rest
        some (fp, xs ++ iterEntries base r)
      else seekEntries base r c rest
end

/-- `Iterator.Seek(key)`: flag + the pairs from the landing position on (what `Key()/Value()/
Next()` enumerate afterwards). -/
def seek (t : Node) (key : Key) : Bool × List KV := seekNode [] t key

/-- `Seek` followed by the repair of fixes/C20-seek-lower-bound.patch:
`if it.valid && bytes.Compare(it.Key(), key) < 0 { it.Next() }`. -/
def seekLB (t : Node) (key : Key) : List KV :=
  match (seek t key).2 with
  | [] => []
  | kv :: r => if keyLt kv.1 key then r else kv :: r

/-- `Iterator.Seek` of the source variant given by the regenerated fact `seekStepsToLowerBound` -/
def seekCur (step : Bool) (t : Node) (key : Key) : Bool × List KV :=
  if step then ((seek t key).1, seekLB t key) else seek t key

/-- `NewPrefixIterator(prefix)` (which calls `Seek`) and the `Valid()/Key()/Value()/Next()` loop -/
def prefixIter (step : Bool) (t : Node) (p : Key) : List KV :=
  if p.isEmpty then (seekCur step t p).2 else (seekCur step t p).2.takeWhile (fun kv => hasPrefix p kv.1)

/-! ### the sorted-map specification -/

def lookup (key : Key) : List KV → Option Nat
  | [] => none
  | (k, v) :: r => if k == key then some v else lookup key r

def lowerBound (key : Key) (kvs : List KV) : List KV := kvs.dropWhile (fun kv => keyLt kv.1 key)

def withPrefix (p : Key) (kvs : List KV) : List KV := kvs.filter (fun kv => hasPrefix p kv.1)

/-- strictly increasing keys -/
def sortedKeys : List KV → Bool
  | [] => true
  | [_] => true
  | a :: b :: r => keyLt a.1 b.1 && sortedKeys (b :: r)

/-- all bytes `< 256` -/
def bytesOK (kvs : List KV) : Bool := kvs.all (fun kv => kv.1.all (fun b => b < 256))

end LinVerif.TrieTree
