/-
C13 (round 12) — the broker's family iterator as the STATEFUL, reused object it is.

`series/metric/row_broker.go`: `BrokerBatchShardFamilyIterator` is a field of
`BrokerBatchShardIterator`, which is a field of the pooled `BrokerBatchRows` (one global `sync.Pool`
for the writes of ALL databases).  The same iterator object therefore serves, one after the other,
requests of databases with different interval types, several shard groups of one batch, and the same
batch iterated again.  `Model/Interval.lean`'s `groupFamilies` is the stateless specification; this file
mirrors the object field for field and method for method, so that "nothing survives `reset`" is a
theorem about the model (`Props/C13Broker.lean`) instead of an assumption built into it.

Core Lean only (linked into `lvmodel`).
-/
import LinVerif.Model.Interval

namespace LinVerif.Interval

/-- `BrokerBatchShardFamilyIterator`: its six fields, in declaration order
(`Tie.broker_bodies` pins the field list of the Go struct, `Tie.broker_iterator_fields` the
correspondence to this structure).  `rows` is the slice of the batch the iterator was reset with
(timestamps of the rows); `sort.Sort(itr.rows)` sorts that slice of the batch IN PLACE, so the order
it leaves is what a later iteration of the same batch starts from. -/
structure FamIter where
  groupEnd : Nat
  groupStart : Nat
  groupFamilyTime : Int
  sameFamily : Bool
  rows : List Int
  intervalCalc : Calc
  deriving Repr

/-- the Go declarations of the fields `FamIter` mirrors, in order (tied to the regenerated field list
of the Go struct by `Tie.broker_iterator_fields`) -/
def FamIter.fieldDecls : List String :=
  ["groupEnd int", "groupStart int", "groupFamilyTime int64", "sameFamily bool",
   "rows familySortedRows", "intervalCalc timeutil.IntervalCalculator"]

/-- `isSameFamily()`: result and the iterator after it (it assigns `groupFamilyTime`) -/
def FamIter.isSameFamily (s : FamIter) : Bool × FamIter :=
  match s.rows with
  | [] => (true, s)
  | t :: rest =>
    let s1 := { s with groupFamilyTime := calcFamilyTime s.intervalCalc t }
    (rest.all (timeRangeOfTimestamp s.intervalCalc t).contains, s1)

/-- `reset(rows, interval)` statement by statement -/
def FamIter.reset (s : FamIter) (rows : List Int) (c : Calc) : FamIter :=
  let s := { s with groupEnd := 0 }
  let s := { s with groupStart := 0 }
  let s := { s with rows := rows }
  let s := { s with intervalCalc := c }
  let s := { s with groupFamilyTime := 0 }
  let s := { s with rows := rows }
  let (b, s) := s.isSameFamily
  let s := { s with sameFamily := b }
  if b then s else { s with rows := sortAsc s.rows }

/-- `HasNextFamily()`: result and the iterator after it.  The inner `for` loop advances `groupEnd`
over the maximal run of rows inside `timeRangeOfTimestamp(first)`. -/
def FamIter.hasNextFamily (s : FamIter) : Bool × FamIter :=
  if s.groupEnd ≥ s.rows.length ∨ s.groupStart > s.groupEnd then (false, s)
  else if s.sameFamily then (true, { s with groupEnd := s.rows.length, groupStart := 0 })
  else
    match s.rows.drop s.groupEnd with
    | [] => (false, s) -- not reachable: `groupEnd < len(rows)`
    | t :: rest =>
      let r := timeRangeOfTimestamp s.intervalCalc t
      let n := ((t :: rest).takeWhile r.contains).length
      let s' := { s with groupStart := s.groupEnd
                         groupFamilyTime := calcFamilyTime s.intervalCalc t
                         groupEnd := s.groupEnd + n }
      (decide (s'.groupStart < s'.groupEnd), s')

/-- `NextFamily()` = `itr.groupFamilyTime, itr.rows[itr.groupStart:itr.groupEnd]` -/
def FamIter.nextFamily (s : FamIter) : Int × List Int :=
  (s.groupFamilyTime, (s.rows.drop s.groupStart).take (s.groupEnd - s.groupStart))

/-- the caller's loop `for itr.HasNextFamily() { familyTime, rows := itr.NextFamily(); … }`
(`fuel` bounds the number of `HasNextFamily` calls); what was handed out and the iterator it leaves -/
def FamIter.drain : Nat → FamIter → List (Int × List Int) × FamIter
  | 0, s => ([], s)
  | fuel + 1, s =>
    let (b, s') := s.hasNextFamily
    if b then
      let (out, s'') := FamIter.drain fuel s'
      (s'.nextFamily :: out, s'')
    else ([], s')

/-- one request on the (pooled) iterator: `reset(rows, interval)` then the caller's loop -/
def FamIter.serve (s : FamIter) (c : Calc) (rows : List Int) : List (Int × List Int) × FamIter :=
  FamIter.drain (rows.length + 1) (s.reset rows c)

/-- a sequence of write requests (interval type of the request's database, rows) served by ONE
iterator object, as the pool hands the batch from request to request -/
def FamIter.serveAll : FamIter → List (Calc × List Int) → List (List (Int × List Int))
  | _, [] => []
  | s, (c, rows) :: reqs =>
    let (out, s') := s.serve c rows
    out :: FamIter.serveAll s' reqs

/-- the SAME rows iterated once per calculator of `cs` (the batch is not released in between): every
iteration starts from the row order the previous one left (in-place sort) and from the iterator the
previous one left -/
def FamIter.reiterate : FamIter → List Int → List Calc → List (List (Int × List Int))
  | _, _, [] => []
  | s, rows, c :: cs =>
    let (out, s') := s.serve c rows
    out :: FamIter.reiterate s' s'.rows cs

/-- a freshly allocated `BrokerBatchRows` (zero value) -/
def FamIter.zero : FamIter :=
  { groupEnd := 0, groupStart := 0, groupFamilyTime := 0, sameFamily := false, rows := [], intervalCalc := .day }

/-! ### shard level (`BrokerBatchShardIterator`) -/

/-- `Reset` (`sort.Sort(batch)` by `shardIdx`, not stable: the order inside a shard group is not
specified, the model keeps batch order) + `HasRowsForNextShard` loop: the groups of equal shard index
in ascending shard order.  Rows are `(shardIdx, timestamp)`; `shardIdx = jump.Hash(KvsHash, n)` is an
external function and comes with the rows. -/
def shardGroups (rows : List (Nat × Int)) : List (Nat × List Int) :=
  let idxs := (rows.map (·.1)).foldr (fun i acc => if acc.contains i then acc else i :: acc) []
  let sorted := idxs.foldr (fun i acc => (acc.takeWhile (· < i)) ++ i :: (acc.dropWhile (· < i))) []
  sorted.map fun i => (i, (rows.filter (·.1 == i)).map (·.2))

/-- one batch through `NewShardGroupIterator` / `HasRowsForNextShard` / `FamilyRowsForNextShard(interval)`
/ `HasNextFamily` / `NextFamily`: the ONE family iterator of the batch is reset once per shard group -/
def FamIter.serveShards : FamIter → Calc → List (Nat × List Int) → List (Nat × List (Int × List Int))
  | _, _, [] => []
  | s, c, (i, rows) :: gs =>
    let (out, s') := s.serve c rows
    (i, out) :: FamIter.serveShards s' c gs

end LinVerif.Interval
