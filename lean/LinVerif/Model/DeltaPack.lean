/-
Byte-exact model of pkg/encoding/delta_bit_packing.go, core Lean only.
Values are `int32` (`Int` in [-2^31, 2^31)); every `int32` operation wraps (`toI32`).
The encoder's stream writer `sw` and bit writer `bw` append to the same `bytes.Buffer`:
that buffer is `bw.out` here.
-/
import LinVerif.Model.Xor

namespace LinVerif.DeltaPack
open LinVerif.Bits LinVerif.Varint LinVerif.Xor

def maxInt32 : Int := 2147483647

structure Enc where
  bw : Writer
  deltas : List Int
  first : Int
  previous : Int
  minDelta : Int
  hasFirst : Bool
  deriving DecidableEq, Repr

/-- `NewDeltaBitPackingEncoder()`: zero values — note `minDelta = 0`, not `MaxInt32` -/
def Enc.fresh : Enc :=
  { bw := Writer.fresh, deltas := [], first := 0, previous := 0, minDelta := 0, hasFirst := false }

/-- `Reset()` -/
def Enc.reset (e : Enc) : Enc :=
  { bw := e.bw.reset [], deltas := [], first := 0, previous := 0, minDelta := maxInt32, hasFirst := false }

/-- `Add(v)` -/
def Enc.add (e : Enc) (v : Int) : Enc :=
  if !e.hasFirst then { e with hasFirst := true, first := v, previous := v }
  else
    let delta := toI32 (e.previous - v)
    { e with deltas := e.deltas ++ [delta],
             minDelta := if delta < e.minDelta then delta else e.minDelta,
             previous := v }

/-- `max` over `uint32(v - minDelta)` -/
def maxDD (minDelta : Int) (deltas : List Int) : Nat :=
  deltas.foldl (fun m v => let dd := toU32 (v - minDelta); if m < dd then dd else m) 0

/-- `width := 32 - bits.LeadingZeros32(max)` -/
def widthOf (m : Nat) : Nat := 32 - clz32 m

/-- the packing loop: `bw.WriteBits(uint64(deltaDelta), width)`, `deltaDelta : int32` (the
conversion to `uint64` sign-extends) -/
def packAll (w : Writer) (minDelta : Int) (width : Nat) : List Int → Writer
  | [] => w
  | v :: rest => packAll (w.writeBits (toU64 (toI32 (v - minDelta))) width) minDelta width rest

/-- `Bytes()`: buffer.Reset, header through `sw`, deltas through `bw` (whose bit state is NOT
reset here), Flush. -/
def Enc.bytes (e : Enc) : List Nat × Enc :=
  let width := widthOf (maxDD e.minDelta e.deltas)
  let header := putVarint (toI32 (e.deltas.length : Int)) ++ [width % 256]
    ++ putVarint (toI64 (zigzagEnc e.minDelta : Nat)) ++ putVarint e.first
  let w := { e.bw with out := header }
  let w := packAll w e.minDelta width e.deltas
  let w := w.flush
  (w.out, { e with bw := w })

structure Dec where
  r : Reader
  count : Int
  pos : Int
  width : Nat
  previous : Int
  minDelta : Int
  deriving DecidableEq, Repr

/-- `stream.Reader.ReadByte` on the remaining bytes: 0 at EOF -/
def srReadByte : List Nat → Nat × List Nat
  | [] => (0, [])
  | b :: rest => (b, rest)

/-- `DeltaBitPackingDecoder.Reset(buf)` (read errors of the header are ignored by the code) -/
def Dec.reset (d : Dec) (buf : List Nat) : Dec :=
  let (x, rest, _) := readVarint buf
  let count := toI32 (toI32 x + 1)
  let (w, rest) := srReadByte rest
  let (mn, rest, _) := readVarint rest
  let minDelta := toI32 (zigzagDec (toU64 mn))
  let (p, rest, _) := readVarint rest
  let previous := toI32 p
  { r := (d.r.setBuf rest).reset, count := count, pos := count, width := w,
    previous := previous, minDelta := minDelta }

/-- `NewDeltaBitPackingDecoder(buf)` -/
def Dec.fresh (buf : List Nat) : Dec :=
  Dec.reset { r := Reader.fresh buf, count := 0, pos := 0, width := 0, previous := 0, minDelta := 0 } buf

/-- `HasNext()` -/
def Dec.hasNext (d : Dec) : Bool := d.pos > 0

/-- `Next()` (the error of `ReadBits` is ignored: the value read is then 0) -/
def Dec.next (d : Dec) : Int × Dec :=
  if d.pos = d.count then (d.previous, { d with pos := toI32 (d.pos - 1) })
  else
    let (x, r) := d.r.readBits d.width
    let x := x.getD 0
    let v := toI32 (toI32 (x : Int) + d.minDelta)
    let vv := toI32 (d.previous - v)
    (vv, { d with r := r, pos := toI32 (d.pos - 1), previous := vv })

end LinVerif.DeltaPack
