/-
C01 — model of lindb's kv version metadata (core Lean only).

  * uvarint / zig-zag varint            encoding/binary.PutUvarint / PutVarint, pkg/stream reader
  * `Log`, `encodeLog`, `decodeLog`     kv/version/log.go  (eight edit-log kinds, Encode/Decode)
  * `marshal`, `unmarshal`              kv/version/edit_log.go  editLog.marshal / unmarshal
  * `Version`, `applyLog`               kv/version/version.go, level.go, rollup.go  (Log.apply)
  * `VS`, `applyEL`, `replay`           kv/version/version_set.go  recover / applyFamilyVersion,
                                        log.go nextFileNumber.applyVersionSet, setNextFileNumberWithoutLock
  * `snapshot`                          version_set.go createSnapshot / createFamilySnapshot / createStoreSnapshot

Go maps are modelled by association lists that keep insertion order (`LinVerif.Map`); the order
is a fixed representative of Go's unspecified map iteration order, the drivers print sorted.
Numbers: `Int` where the code has int32/int64 (zig-zag varints), `Nat` where it has uint32.
Deviations (also listed in design_notes/C01.md): unbounded integers (no 64-bit overflow check in
`getUvarint`, no int32 truncation); `decodeLog`/`unmarshal` are strict (a short read is an error;
the Go reader's error flag is overwritten by each read so some malformed inputs decode "successfully"
there) — only the round trip on well-formed records is claimed.
-/
import LinVerif.Util.Map

namespace LinVerif.Kv
open LinVerif

abbrev Bytes := List Nat

/-! ## uvarint / varint -/

/-- binary.PutUvarint: 7 bits per byte, least significant group first, high bit = continuation.
`fuel` only makes the recursion structural; `putUvarint` passes enough. -/
def putUvarintAux : Nat → Nat → Bytes
  | 0, n => [n]
  | f + 1, n => if n < 128 then [n] else (n % 128 + 128) :: putUvarintAux f (n / 128)

def putUvarint (n : Nat) : Bytes := putUvarintAux n n

/-- binary.ReadUvarint (without the 10-byte overflow check): value and the remaining bytes. -/
def getUvarint : Bytes → Option (Nat × Bytes)
  | [] => none
  | b :: t =>
    if b < 128 then some (b, t)
    else match getUvarint t with
      | some (v, r) => some (b - 128 + 128 * v, r)
      | none => none

/-- zig-zag of binary.PutVarint: `ux = uint64(x) << 1; if x < 0 { ux = ^ux }`. -/
def zig (i : Int) : Nat := if 0 ≤ i then (2 * i).toNat else (-(2 * i) - 1).toNat

/-- inverse (readVarint): `x = int64(ux >> 1); if ux&1 != 0 { x = ^x }`. -/
def unzig (u : Nat) : Int := if u % 2 = 0 then ((u / 2 : Nat) : Int) else -((u / 2 : Nat) : Int) - 1

def putVarint (i : Int) : Bytes := putUvarint (zig i)

def getVarint (b : Bytes) : Option (Int × Bytes) :=
  match getUvarint b with
  | some (u, r) => some (unzig u, r)
  | none => none

/-! ## Edit-log kinds (kv/version/log.go) -/

inductive Log
  | newFile (level file : Int) (minKey maxKey size : Nat)
  | deleteFile (level file : Int)
  | nextFileNumber (n : Int)
  | newRollupFile (file interval : Int)
  | deleteRollupFile (file interval : Int)
  | newReferenceFile (store : Bytes) (family file : Int)
  | deleteReferenceFile (store : Bytes) (family file : Int)
  | sequence (leader seq : Int)
  deriving DecidableEq, Repr

/-- the `LogType` iota block of log.go (tied to the regenerated constants in Props/C01). -/
def Log.tag : Log → Nat
  | .newFile .. => 1
  | .deleteFile .. => 2
  | .nextFileNumber .. => 3
  | .newRollupFile .. => 4
  | .deleteRollupFile .. => 5
  | .newReferenceFile .. => 6
  | .deleteReferenceFile .. => 7
  | .sequence .. => 8

/-- `Encode()` of each kind. -/
def encodeLog : Log → Bytes
  | .newFile lvl f mn mx sz => putVarint lvl ++ (putVarint f ++ (putUvarint mn ++ (putUvarint mx ++ putUvarint sz)))
  | .deleteFile lvl f => putVarint lvl ++ putVarint f
  | .nextFileNumber n => putVarint n
  | .newRollupFile f i => putVarint f ++ putVarint i
  | .deleteRollupFile f i => putVarint f ++ putVarint i
  | .newReferenceFile st fam f => putVarint f ++ (putVarint fam ++ (putVarint (st.length : Nat) ++ st))
  | .deleteReferenceFile st fam f => putVarint f ++ (putVarint fam ++ (putVarint (st.length : Nat) ++ st))
  | .sequence l s => putVarint l ++ putVarint s

/-- the `file, family, len, bytes` layout shared by the two reference-file kinds. -/
def decodeRef (b : Bytes) : Option (Bytes × Int × Int) :=
  match getVarint b with
  | none => none
  | some (f, b1) =>
    match getVarint b1 with
    | none => none
    | some (fam, b2) =>
      match getVarint b2 with
      | none => none
      | some (len, b3) =>
        if len < 0 then none
        else if b3.length < len.toNat then none
        else some (b3.take len.toNat, fam, f)

def decode2 (b : Bytes) : Option (Int × Int) :=
  match getVarint b with
  | none => none
  | some (x, b1) =>
    match getVarint b1 with
    | none => none
    | some (y, _) => some (x, y)

/-- `Decode()` of the kind registered under `tag` (newLogFuncMap); trailing bytes are ignored as in Go. -/
def decodeLog (tag : Nat) (b : Bytes) : Option Log :=
  match tag with
  | 1 =>
    match getVarint b with
    | none => none
    | some (lvl, b1) =>
      match getVarint b1 with
      | none => none
      | some (f, b2) =>
        match getUvarint b2 with
        | none => none
        | some (mn, b3) =>
          match getUvarint b3 with
          | none => none
          | some (mx, b4) =>
            match getUvarint b4 with
            | none => none
            | some (sz, _) => some (.newFile lvl f mn mx sz)
  | 2 => (decode2 b).map (fun p => .deleteFile p.1 p.2)
  | 3 => (getVarint b).map (fun p => .nextFileNumber p.1)
  | 4 => (decode2 b).map (fun p => .newRollupFile p.1 p.2)
  | 5 => (decode2 b).map (fun p => .deleteRollupFile p.1 p.2)
  | 6 => (decodeRef b).map (fun p => .newReferenceFile p.1 p.2.1 p.2.2)
  | 7 => (decodeRef b).map (fun p => .deleteReferenceFile p.1 p.2.1 p.2.2)
  | 8 => (decode2 b).map (fun p => .sequence p.1 p.2)
  | _ => none

/-- StoreFamilyID of edit_log.go (tied to the regenerated constant). -/
def storeFamilyID : Int := -99999999

structure EditLog where
  fid : Int
  logs : List Log
  deriving DecidableEq, Repr

def marshalLog (l : Log) : Bytes :=
  putVarint (l.tag : Nat) ++ (putUvarint (encodeLog l).length ++ encodeLog l)

def marshalLogs : List Log → Bytes
  | [] => []
  | l :: t => marshalLog l ++ marshalLogs t

/-- editLog.marshal: family id, number of logs, then per log: type, length, bytes. -/
def marshal (el : EditLog) : Bytes :=
  putVarint el.fid ++ (putUvarint el.logs.length ++ marshalLogs el.logs)

/-- the `for ; count > 0; count--` loop of editLog.unmarshal. -/
def unmarshalLogs : Nat → Bytes → Option (List Log)
  | 0, _ => some []
  | c + 1, b =>
    match getVarint b with
    | none => none
    | some (tag, b1) =>
      if tag < 0 then none else
      match getUvarint b1 with
      | none => none
      | some (len, b2) =>
        if b2.length < len then none else
        match decodeLog tag.toNat (b2.take len) with
        | none => none
        | some l =>
          match unmarshalLogs c (b2.drop len) with
          | none => none
          | some ls => some (l :: ls)

def unmarshal (b : Bytes) : Option EditLog :=
  match getVarint b with
  | none => none
  | some (fid, b1) =>
    match getUvarint b1 with
    | none => none
    | some (cnt, b2) =>
      match unmarshalLogs cnt b2 with
      | none => none
      | some ls => some ⟨fid, ls⟩

/-! ## Version (kv/version/version.go, level.go, rollup.go) -/

structure FileMeta where
  minKey : Nat
  maxKey : Nat
  size : Nat
  deriving DecidableEq, Repr

/-- One family version. `files` is `levels[level].files[fileNumber]` flattened to the key
`(level, fileNumber)`; `refs` is `referenceFiles[store][family]` flattened to `(store, family)`
(the code deletes empty inner maps, so the flattening loses nothing). -/
structure Version where
  numLevels : Nat
  files : List ((Int × Int) × FileMeta)
  seqs : List (Int × Int)
  refs : List ((Bytes × Int) × List Int)
  rollup : List (Int × List Int)
  deriving DecidableEq, Repr

def Version.empty (numLevels : Nat) : Version := ⟨numLevels, [], [], [], []⟩

/-- `level >= 0 && level < v.numOfLevels` (AddFile / DeleteFile guard) -/
def Version.levelOk (v : Version) (lvl : Int) : Bool := decide (0 ≤ lvl) && decide (lvl < (v.numLevels : Int))

/-- rollup.removeRollupFile / removeReferenceFile: drop the element, delete the key when nothing is left. -/
def removeFrom {κ : Type} [DecidableEq κ] (m : List (κ × List Int)) (k : κ) (x : Int) : List (κ × List Int) :=
  match Map.lookup m k with
  | none => m
  | some xs =>
    let rs := xs.filter (fun y => y ≠ x)
    if rs = [] then Map.erase m k else Map.upsert m k rs

/-- `Log.apply(version)` of each kind. -/
def applyLog (v : Version) : Log → Version
  | .newFile lvl f mn mx sz =>
    if v.levelOk lvl then { v with files := Map.upsert v.files (lvl, f) ⟨mn, mx, sz⟩ } else v
  | .deleteFile lvl f =>
    if v.levelOk lvl then { v with files := Map.erase v.files (lvl, f) } else v
  | .nextFileNumber _ => v
  | .newRollupFile f i =>
    { v with rollup := Map.upsert v.rollup f (((Map.lookup v.rollup f).getD []) ++ [i]) }
  | .deleteRollupFile f i => { v with rollup := removeFrom v.rollup f i }
  | .newReferenceFile st fam f =>
    match Map.lookup v.refs (st, fam) with
    | none => { v with refs := Map.upsert v.refs (st, fam) [f] }
    | some fs => if f ∈ fs then v else { v with refs := Map.upsert v.refs (st, fam) (fs ++ [f]) }
  | .deleteReferenceFile st fam f => { v with refs := removeFrom v.refs (st, fam) f }
  | .sequence l s => { v with seqs := Map.upsert v.seqs l s }

/-! ## Version set (kv/version/version_set.go) -/

structure FamV where
  id : Int
  ver : Version
  deriving DecidableEq, Repr

/-- familyVersions (by id, current version only), manifestFileNumber, nextFileNumber. -/
structure VS where
  fams : List FamV
  manifestNo : Int
  next : Int
  deriving DecidableEq, Repr

def VS.hasFam (s : VS) (fid : Int) : Bool := s.fams.any (fun f => f.id = fid)

def VS.verOf (s : VS) (fid : Int) : Option Version :=
  match s.fams.find? (fun f => f.id = fid) with
  | some f => some f.ver
  | none => none

/-- nextFileNumber.applyVersionSet → setNextFileNumberWithoutLock: manifest := n, next := n+1. -/
def setNumbers (s : VS) : Log → VS
  | .nextFileNumber n => { s with manifestNo := n, next := n + 1 }
  | _ => s

/-- one step of `editLog.apply(version)`: `log.apply(version)`, then `applyVersionSet` if it is a StoreLog. -/
def applyLogVS (fid : Int) (s : VS) (l : Log) : VS :=
  setNumbers { s with fams := s.fams.map (fun f => if f.id = fid then { f with ver := applyLog f.ver l } else f) } l

/-- recover()'s dispatch on the record's family id: StoreFamilyID → editLog.applyVersionSet
(non-store logs only warn), otherwise applyFamilyVersion (error when the id is unknown). -/
def applyEL (s : VS) (el : EditLog) : Option VS :=
  if el.fid = storeFamilyID then some (el.logs.foldl setNumbers s)
  else if s.hasFam el.fid then some (el.logs.foldl (applyLogVS el.fid) s)
  else none

/-- a manifest file: the synced records, and whether an error-producing torn tail follows them
(torn tails only exist in hand-built disks: no operation of the model produces one). -/
structure Manifest where
  recs : List Bytes
  torn : Bool
  deriving DecidableEq, Repr

/-- the read loop of recover(): returns the state reached and whether it ended without error. -/
def replayRecs : VS → List Bytes → VS × Bool
  | s, [] => (s, true)
  | s, r :: t =>
    match unmarshal r with
    | none => (s, false)
    | some el =>
      match applyEL s el with
      | none => (s, false)
      | some s' => replayRecs s' t

def replay (s : VS) (m : Manifest) : VS × Bool :=
  let r := replayRecs s m.recs
  if r.2 && m.torn then (r.1, false) else r

/-- createFamilySnapshot: files per level, sequences, reference files, rollup files. -/
def famSnapshot (f : FamV) : EditLog :=
  ⟨f.id,
    f.ver.files.map (fun e => Log.newFile e.1.1 e.1.2 e.2.minKey e.2.maxKey e.2.size) ++
    (f.ver.seqs.map (fun e => Log.sequence e.1 e.2) ++
    (f.ver.refs.flatMap (fun e => e.2.map (fun x => Log.newReferenceFile e.1.1 e.1.2 x)) ++
     f.ver.rollup.flatMap (fun e => e.2.map (fun i => Log.newRollupFile e.1 i))))⟩

/-- createSnapshot: one edit log per family, then the store-level log (next file number). -/
def snapshot (s : VS) : List EditLog :=
  s.fams.map famSnapshot ++ [⟨storeFamilyID, [.nextFileNumber s.next]⟩]

/-- NewStoreVersionSet: manifestFileNumber 1, nextFileNumber 2, families created empty. -/
def VS.init (numLevels : Nat) (ids : List Int) : VS :=
  ⟨ids.map (fun i => ⟨i, Version.empty numLevels⟩), 1, 2⟩

end LinVerif.Kv
