/-
Model of a data family holding metric blocks: flush, level-0 compaction, reading (core Lean only).

Go anchors: kv/flusher.go (`storeFlusher`), kv/table/builder.go (`ensureIncreasingKey`,
`MinKey`/`MaxKey`), kv/version/version.go (`PickL0Compaction`, `getOverlappingInputs`,
`FindFiles`), kv/version/compact.go (`IsTrivialMove`), kv/compact_job.go (`Run`, `doMerge`,
`compactFlusher`, `finishCompactionOutputFile`, `installCompactionResults`),
kv/version/snapshot.go (`Load`), aggregation/field_agg.go (`AggregateBySlot`).

Not modelled here (other properties): the edit log / manifest (C01), reference counting of
versions (C02), the table file format and the heap of the merged iterator (C15) — the merged
iterator is represented by its contract: it yields every pair of every input in non-decreasing
key order; the order among equal keys is a parameter (`Params.shuffle`).
-/
import LinVerif.Model.Merge

namespace LinVerif.Compact
open LinVerif.Map LinVerif.MetricBlock LinVerif.Merge

variable {V : Type}

/-- one table file: `FileMeta` key range + the key ↦ metric block pairs it stores -/
structure File (V : Type) where
  minKey : Nat
  maxKey : Nat
  entries : List (Nat × Block V)

/-- the current version of a family with two levels (`StoreOption.Levels = 2`) -/
structure Family (V : Type) where
  l0 : List (File V)
  l1 : List (File V)

def Family.empty : Family V := { l0 := [], l1 := [] }

/-! ### writing a table file -/

/-- `streamWriter.Prepare` → `ensureIncreasingKey`: a key that is not larger than the last
committed key is ignored (its writes and its commit are dropped). `last` is `none` while
`storeBuilder.first`. -/
def ascFilter {β : Type} : Option Nat → List (Nat × β) → List (Nat × β)
  | _, [] => []
  | none, e :: t => e :: ascFilter (some e.1) t
  | some m, e :: t => if e.1 ≤ m then ascFilter (some m) t else e :: ascFilter (some e.1) t

def lastKey {β : Type} : Nat → List (Nat × β) → Nat
  | k, [] => k
  | _, e :: t => lastKey e.1 t

/-- `version.NewFileMeta(builder.FileNumber(), builder.MinKey(), builder.MaxKey(), …)` for a builder
that received `es` in order; `none` when nothing was written (`builder.Size() == 0` / `Count() == 0`). -/
def mkFile (es : List (Nat × Block V)) : Option (File V) :=
  match es with
  | [] => none
  | e :: t => some { minKey := e.1, maxKey := lastKey e.1 t, entries := e :: t }

/-- one memory-database flush: `metricsdata.Flusher` over `family.NewFlusher()`; a metric without
any series writes nothing (`CommitMetric`: `seriesIDs.IsEmpty()`), out-of-order keys are ignored
by the table builder, an empty builder is abandoned, otherwise one new level-0 file. -/
def flush (st : Family V) (es : List (Nat × Block V)) : Family V :=
  match mkFile (ascFilter none (es.filter (fun e => !e.2.series.isEmpty))) with
  | none => st
  | some f => { st with l0 := st.l0 ++ [f] }

/-! ### reading -/

/-- `version.FindFiles(key)` range test followed by `table.Reader.Get(key)` -/
def File.get (f : File V) (m : Nat) : Option (Block V) :=
  if f.minKey ≤ m ∧ m ≤ f.maxKey then lookup f.entries m else none

def Family.files (st : Family V) : List (File V) := st.l0 ++ st.l1

/-- `Snapshot.Load(metricID, loader)`: the blocks of one metric in every file of every level -/
def blocksOf (st : Family V) (m : Nat) : List (Block V) :=
  st.files.filterMap (fun f => f.get m)

/-- every value the files of the version contribute to one cell -/
def contrib (st : Family V) (m : Nat) (s : Nat) (f : Nat) (t : Nat) : List V :=
  (blocksOf st m).filterMap (fun b => b.get s f t)

/-- what a reader observes for one cell: the contributions of all files combined by the field's
aggregate in visiting order (`fieldAggregator.AggregateBySlot` with the field type's default
down-sampling function) -/
def view (op : V → V → V) (st : Family V) (m : Nat) (s : Nat) (f : Nat) (t : Nat) :
    Option V :=
  foldAgg op (contrib st m s f t)

/-! ### compaction -/

/-- `getOverlappingInputs`: `fileMeta.GetMaxKey() < minKey || fileMeta.GetMinKey() > maxKey` skips -/
def overlaps (g f : File V) : Bool := !(decide (f.maxKey < g.minKey) || decide (f.minKey > g.maxKey))

/-- level-1 files picked by `PickL0Compaction`: overlapping the key range of some level-0 file -/
def pickUp (l0 l1 : List (File V)) : List (File V) :=
  l1.filter (fun f => l0.any (fun g => overlaps g f))

/-- level-1 files left alone -/
def restUp (l0 l1 : List (File V)) : List (File V) :=
  l1.filter (fun f => !(l0.any (fun g => overlaps g f)))

/-- stable insertion by key -/
def insertByKey {β : Type} (x : Nat × β) : List (Nat × β) → List (Nat × β)
  | [] => [x]
  | y :: t => if x.1 ≤ y.1 then x :: y :: t else y :: insertByKey x t

/-- a key-ordered arrangement of the pairs (contract of `table.NewMergedIterator`) -/
def sortByKey {β : Type} (l : List (Nat × β)) : List (Nat × β) := l.foldr insertByKey []

/-- the loop of `compactJob.doMerge`: values of equal consecutive keys are collected in
`needMerge`; a key change merges the collected values under `previousKey`; after the iterator is
exhausted the pending values are merged. `start` is the Go variable of the same name. -/
def groupLoop {β : Type} : List (Nat × β) → Bool → Nat → List β → List (Nat × List β)
  | [], _, prev, need => if need.isEmpty then [] else [(prev, need)]
  | e :: rest, start, prev, need =>
    if start || e.1 == prev then groupLoop rest false e.1 (need ++ [e.2])
    else (prev, need) :: groupLoop rest false e.1 [e.2]

structure Params (V : Type) where
  /-- `FamilyOption.CompactThreshold` as passed to `PickL0Compaction` -/
  threshold : Nat
  /-- `family.maxFileSize` -/
  maxFileSize : Nat
  /-- bytes the merged block of a key occupies in the output table (`builder.Size()` grows by it) -/
  size : Nat → Block V → Nat
  /-- order in which the merged iterator delivers pairs of equal keys (any permutation) -/
  shuffle : List (Nat × Block V) → List (Nat × Block V)
  /-- does the stream writer handed to the merger follow the compaction's CURRENT output builder?
  (`compactFlusher.StreamWriter` caches the writer of the first builder; generated fact) -/
  rebind : Bool
  /-- does `dataScanner.nextContainer` accept a zero-length series bucket? (generated fact) -/
  tolerant : Bool
  /-- injected I/O fault: the output file with this index (0 = first) cannot be created
  (`family.newTableBuilder` fails); `none` = no fault -/
  failAt : Option Nat

/-- `compactFlusherStreamWriter.Commit` → `afterAdd`: after each committed entry the current output
file is finished when `builder.Size() >= maxFileSize`; after the loop a non-empty builder is
finished. `cur`/`sz` are the entries/bytes of the open builder. -/
def splitLoop (size : Nat → Block V → Nat) (max : Nat) :
    List (Nat × Block V) → List (Nat × Block V) → Nat → List (List (Nat × Block V))
  | [], cur, _ => if cur.isEmpty then [] else [cur]
  | e :: rest, cur, sz =>
    let sz' := sz + size e.1 e.2
    if sz' ≥ max then (cur ++ [e]) :: splitLoop size max rest [] 0
    else splitLoop size max rest (cur ++ [e]) sz'

inductive Outcome
  | skipped   -- PickL0Compaction returned nil
  | moved     -- trivial move
  | merged    -- merge compaction installed
  | crashed   -- merge compaction did not complete (Merge error / nil dereference in afterAdd), nothing installed
  deriving DecidableEq, Repr

/-- the groups `doMerge` hands to `merger.Merge`: key and the blocks of that key in the order the
merged iterator delivered them -/
def mergeGroups (p : Params V) (inputs : List (File V)) : List (Nat × List (Block V)) :=
  groupLoop (sortByKey (p.shuffle (inputs.flatMap (fun f => f.entries)))) true 0 []

/-- the merged output entries of a merge compaction, in key order -/
def mergedEntries (agg : FieldType → V → V → V) (p : Params V) (inputs : List (File V)) :
    List (Nat × Block V) :=
  (mergeGroups p inputs).map (fun g => (g.1, mergeBlocks p.tolerant agg g.2))

/-- does the merge compaction fail (`doMerge` returns an error or panics)? `merger.Merge` returns an
error for some key (`mergeFails`), or the output needs a second file and the stream writer stays
bound to the first one, or an output file that is needed cannot be created (injected fault) -/
def jobFails (agg : FieldType → V → V → V) (p : Params V) (inputs : List (File V)) : Bool :=
  let chunks := splitLoop p.size p.maxFileSize (mergedEntries agg p inputs) [] 0
  (mergeGroups p inputs).any (fun g => mergeFails p.tolerant g.2)
    || (!p.rebind && decide (chunks.length > 1))
    || (match p.failAt with
        | some k => decide (k = 0 ∨ chunks.length > k)   -- file 0 is opened by `NewMerger` (`StreamWriter()`), the others on demand
        | none => false)

/-- `family.backgroundCompactionJob` / `compactJob.Run`. `mergeCompaction`: the results are installed
only after `doMerge` returned nil; a failed merge compaction installs nothing (the deferred
`cleanupCompaction` only abandons the open builder and releases the pending outputs). -/
def compact (agg : FieldType → V → V → V) (p : Params V) (st : Family V) : Family V × Outcome :=
  if st.l0.length < p.threshold then (st, .skipped)
  else
    let up := pickUp st.l0 st.l1
    let rest := restUp st.l0 st.l1
    if st.l0.length = 1 ∧ up.isEmpty then
      ({ l0 := [], l1 := st.l1 ++ st.l0 }, .moved)
    else if jobFails agg p (st.l0 ++ up) then (st, .crashed)
    else
      ({ l0 := [], l1 := rest ++
          (splitLoop p.size p.maxFileSize (mergedEntries agg p (st.l0 ++ up)) [] 0).filterMap mkFile }, .merged)

/-! ### histories -/

inductive Op (V : Type)
  | flush (es : List (Nat × Block V))
  | compact (p : Params V)

def step (agg : FieldType → V → V → V) (st : Family V) : Op V → Family V
  | .flush es => flush st es
  | .compact p => (compact agg p st).1

def run (agg : FieldType → V → V → V) (st : Family V) (ops : List (Op V)) : Family V :=
  ops.foldl (step agg) st

end LinVerif.Compact
