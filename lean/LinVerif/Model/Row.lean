/-
C16 — executable model of the ingestion row canonicalisation (core Lean only).

Mirrors, branch for branch,
  * series/metric/row_proto_converter.go  validateMetric / deDupTags / MarshalProtoMetricV1
  * series/tag/tag.go                     KeyValues.Less / DeDup / XXHashOfKeyValues
  * github.com/lindb/common/series        SanitizeMetricName / SanitizeNamespace / SanitizeFieldName

External libraries are parameters: Go's `sort.Sort` (`sort : List Tag → List Tag`, hypotheses in
`SortSpec`), xxhash (`H : String → Nat`). float64 values are abstracted to what the validation can
distinguish (`F`: an integer-valued number, NaN, +Inf, -Inf).
-/
namespace LinVerif.Row

/-! ## float64 as far as validation looks at it -/

inductive F where
  | num (i : Int)
  | nan
  | pinf
  | ninf
  deriving DecidableEq, Repr, Inhabited

/-- `math.IsNaN` -/
def F.isNaN : F → Bool
  | .nan => true
  | _ => false

/-- `math.IsInf(v, 0)` -/
def F.isInf : F → Bool
  | .pinf => true
  | .ninf => true
  | _ => false

/-- `math.IsInf(v, 1)` -/
def F.isPInf : F → Bool
  | .pinf => true
  | _ => false

/-- Go's `a < b` on float64 (every comparison with NaN is false). -/
def F.lt : F → F → Bool
  | .nan, _ => false
  | _, .nan => false
  | .ninf, .ninf => false
  | .ninf, _ => true
  | _, .ninf => false
  | .pinf, _ => false
  | .num _, .pinf => true
  | .num a, .num b => decide (a < b)

/-- `v < 0` -/
def F.neg (v : F) : Bool := F.lt v (.num 0)

/-! ## metrics -/

structure Tag where
  key : String
  value : String
  deriving DecidableEq, Repr, Inhabited

structure SField where
  name : String
  ftype : Nat          -- protoMetricsV1.SimpleFieldType / flatMetricsV1.SimpleFieldType raw value
  value : F
  deriving DecidableEq, Repr

structure Compound where
  min : F
  max : F
  sum : F
  count : F
  values : List F
  bounds : List F
  deriving DecidableEq, Repr

/-- `*protoMetricsV1.Metric` as the converter receives it: tag and field slices hold pointers,
which may be nil. -/
structure PMetric where
  name : String
  ns : String
  ts : Int
  tags : List (Option Tag)
  fields : List (Option SField)
  compound : Option Compound
  deriving DecidableEq, Repr

/-- models.Limits (write side); 0 disables a limit (`Enable…Check() = limit > 0`). -/
structure Limits where
  maxName : Nat
  maxField : Nat
  maxTagKey : Nat
  maxTagVal : Nat
  maxTags : Nat
  maxFields : Nat
  deriving Repr

/-- Converter context: limits, request-level namespace, enriched tags, the clock. -/
structure Cfg where
  limits : Limits
  reqNs : String
  enriched : List Tag
  now : Int

inductive Err where
  | nilMetric | emptyName | nameTooLong | emptyField | tooManyTags | emptyTagKV
  | tagKeyTooLong | tagValueTooLong | tooManyFields | badFormat | emptyFieldName
  | fieldNameTooLong | nanField | infField
  deriving DecidableEq, Repr

/-- Go `len(s)`: bytes of the UTF-8 encoding. -/
def blen (s : String) : Nat := s.utf8ByteSize

/-- `limit > 0 && n > limit` -/
def over (limit n : Nat) : Bool := decide (0 < limit) && decide (limit < n)

/-- commonseries.SanitizeMetricName / SanitizeNamespace: every '|' becomes '_'. -/
def sanitizeName (s : String) : String :=
  String.ofList (s.toList.map (fun c => if c = '|' then '_' else c))

/-- bytes.HasPrefix on valid UTF-8 (prefix on code points = prefix on bytes) -/
def hasPrefix (pre s : String) : Bool := pre.toList.isPrefixOf s.toList

/-- commonseries.ShouldSanitizeFieldName + SanitizeFieldName. -/
def sanitizeFieldName (s : String) : String :=
  if hasPrefix "Histogram" s then "_" ++ s
  else if hasPrefix "__bucket_" s then String.ofList (s.toList.drop 1)
  else s

/-- The validated (and, as in Go, already rewritten) metric. -/
structure VMetric where
  name : String
  ns : String
  ts : Int
  tags : List Tag
  fields : List SField
  compound : Option Compound
  deriving DecidableEq, Repr

/-- validateMetric, tag loop: first failing tag, first failing rule. -/
def checkTags (l : Limits) : List (Option Tag) → Except Err (List Tag)
  | [] => .ok []
  | none :: _ => .error .emptyTagKV
  | some t :: rest =>
    if t.key = "" ∨ t.value = "" then .error .emptyTagKV
    else if over l.maxTagKey (blen t.key) then .error .tagKeyTooLong
    else if over l.maxTagVal (blen t.value) then .error .tagValueTooLong
    else match checkTags l rest with
      | .ok ts => .ok (t :: ts)
      | .error e => .error e

/-- validateMetric, simple-field loop (the field name is sanitized in place). -/
def checkFields (l : Limits) : List (Option SField) → Except Err (List SField)
  | [] => .ok []
  | none :: _ => .error .badFormat
  | some f :: rest =>
    if f.name = "" then .error .emptyFieldName
    else if over l.maxField (blen f.name) then .error .fieldNameTooLong
    else if f.ftype = 0 then .error .badFormat
    else if f.value.isNaN then .error .nanField
    else if f.value.isInf then .error .infField
    else match checkFields l rest with
      | .ok fs => .ok ({ f with name := sanitizeFieldName f.name } :: fs)
      | .error e => .error e

/-- validateMetric, bucket loop: values[idx] ≥ 0, bounds[idx] ≥ 0, bounds non-decreasing,
last bound +Inf. `prev` is bounds[idx-1]. The two lists have equal length here. -/
def checkBuckets : Option F → List F → List F → Bool
  | _, [], [] => true
  | prev, v :: vs, b :: bs =>
    !(v.neg || b.neg)
    && (match prev with
        | some p => !(F.lt b p)
        | none => true)
    && (if bs.isEmpty then b.isPInf else true)
    && checkBuckets (some b) vs bs
  | _, _, _ => false

def checkCompound (c : Compound) : Bool :=
  !(c.values.length != c.bounds.length || decide (c.values.length ≤ 2))
  && !(c.max.neg || c.min.neg || c.sum.neg || c.count.neg)
  && checkBuckets none c.values c.bounds

/-- BrokerRowProtoConverter.validateMetric (in Go it mutates `m`; here it returns the rewritten
metric). Rule order is Go's. -/
def validate (c : Cfg) : Option PMetric → Except Err VMetric
  | none => .error .nilMetric
  | some m =>
    if m.name = "" then .error .emptyName
    else if over c.limits.maxName (blen m.name) then .error .nameTooLong
    else if m.fields.isEmpty && m.compound.isNone then .error .emptyField
    else
      let ts := if m.ts = 0 then c.now else m.ts
      let tags := m.tags ++ c.enriched.map some
      let ns := sanitizeName (if c.reqNs ≠ "" then c.reqNs else m.ns)
      if over c.limits.maxTags tags.length then .error .tooManyTags
      else match checkTags c.limits tags with
        | .error e => .error e
        | .ok ts' =>
          if over c.limits.maxFields m.fields.length then .error .tooManyFields
          else match checkFields c.limits m.fields with
            | .error e => .error e
            | .ok fs =>
              match m.compound with
              | none => .ok ⟨sanitizeName m.name, ns, ts, ts', fs, none⟩
              | some cf =>
                if checkCompound cf then .ok ⟨sanitizeName m.name, ns, ts, ts', fs, some cf⟩
                else .error .badFormat

/-! ## tag order, de-duplication, hash -/

/-- tag.KeyValues.Less. `tb = false` is the code as it stands (keys only); `tb = true` is the
variant that breaks ties on the value (see design note, fixes/C16-less-key-then-value.patch).
The regenerated fact `Generated.C16.lessTieBreakOnValue` selects the variant the driver runs. -/
def less (tb : Bool) (a b : Tag) : Bool :=
  decide (a.key < b.key) || (tb && a.key == b.key && decide (a.value < b.value))

/-- The 2-pointer loop of deDupTags / KeyValues.DeDup on a sorted slice: of every run of equal
adjacent keys the LAST element survives. -/
def dedupRuns : List Tag → List Tag
  | [] => []
  | [a] => [a]
  | a :: b :: rest =>
    if a.key = b.key then dedupRuns (b :: rest) else a :: dedupRuns (b :: rest)

/-- BrokerRowProtoConverter.deDupTags -/
def deDupTags (sort : List Tag → List Tag) (tags : List Tag) : List Tag :=
  if tags.length < 2 then tags else dedupRuns (sort tags)

/-- sort.IsSorted(kvs): no adjacent pair is out of order. -/
def isSortedBy (lt : Tag → Tag → Bool) : List Tag → Bool
  | [] => true
  | [_] => true
  | a :: b :: rest => !(lt b a) && isSortedBy lt (b :: rest)

/-- The byte string xxHashOfSortedKeyValuesOnSlice hashes: `k=v,k=v,…`. -/
def concatKVs (tags : List Tag) : String :=
  ",".intercalate (tags.map (fun t => t.key ++ "=" ++ t.value))

/-- tag.XXHashOfKeyValues (re-sorts unless already sorted). -/
def kvsHash (tb : Bool) (sort : List Tag → List Tag) (H : String → Nat) (tags : List Tag) : Nat :=
  match tags with
  | [] => H ""
  | [t] => H (concatKVs [t])
  | _ => H (concatKVs (if isSortedBy (less tb) tags then tags else sort tags))

/-- The switch of MarshalProtoMetricV1 from proto field types to flat field types: the five known
types keep their number, every other value leaves the flat default (0 = UnSpecified). -/
def mapType (t : Nat) : Nat := if 1 ≤ t ∧ t ≤ 5 then t else 0

/-- What the flat row holds (BrokerRow / StorageRow accessors). -/
structure Stored where
  name : String
  ns : String
  ts : Int
  tags : List Tag
  fields : List SField
  compound : Option Compound
  hash : Nat
  nameHash : Nat
  deriving DecidableEq, Repr, Inhabited

/-- MarshalProtoMetricV1 after validation. -/
def build (tb : Bool) (sort : List Tag → List Tag) (H : String → Nat) (v : VMetric) : Stored :=
  let tags := deDupTags sort v.tags
  { name := v.name, ns := v.ns, ts := v.ts, tags := tags,
    fields := v.fields.map (fun f => { f with ftype := mapType f.ftype }),
    compound := v.compound,
    hash := kvsHash tb sort H tags,
    nameHash := H (v.ns ++ v.name) }

/-- BrokerRowProtoConverter.ConvertTo -/
def convert (tb : Bool) (sort : List Tag → List Tag) (H : String → Nat) (c : Cfg) (m : Option PMetric) :
    Except Err Stored :=
  match validate c m with
  | .ok v => .ok (build tb sort H v)
  | .error e => .error e

/-- parseProtoMetric: every metric is converted on its own; a metric that fails is not appended. -/
def convertBatch (tb : Bool) (sort : List Tag → List Tag) (H : String → Nat) (c : Cfg)
    (ms : List (Option PMetric)) : List Stored :=
  ms.filterMap (fun m => match convert tb sort H c m with
    | .ok s => some s
    | .error _ => none)

/-! ## Go's `sort.Sort` as a parameter -/

/-- What is assumed of `sort.Sort` (pdqsort, not stable): the result is a permutation of the input
and no later element is smaller than an earlier one. Nothing is said about the order of elements
that compare equal. -/
structure SortSpec {α : Type} (lt : α → α → Bool) (sort : List α → List α) : Prop where
  perm : ∀ l, (sort l).Perm l
  ordered : ∀ l, (sort l).Pairwise (fun a b => lt b a = false)

/-! ## the concrete sort the driver runs -/

/-- insertionSort of Go's sort package (what `sort.Sort` runs for n ≤ 12) is stable; this is the
stable insertion sort: elements are inserted from the right, each before the first strictly
greater element, so equal elements keep their input order. -/
def insertionSort {α : Type} (lt : α → α → Bool) : List α → List α
  | [] => []
  | a :: rest => insertSortedL lt a (insertionSort lt rest)
where
  /-- insert `a` (which preceded every element of the list in the input) before the first
  element that is not smaller than it. -/
  insertSortedL (lt : α → α → Bool) (a : α) : List α → List α
    | [] => [a]
    | b :: rest => if lt b a then b :: insertSortedL lt a rest else a :: b :: rest

end LinVerif.Row
