/-
C01 — store.CreateFamily under concurrent creators (core Lean only).

Any number of goroutines call `store.CreateFamily(name, option)` on ONE open store (e.g. a shard writer
and a rollup job asking for the same target family). The atomic steps are the ones the code has:

  fast t nm   the read-locked lookup `s.families[nm]` (RLock … RUnlock): a hit returns the published
              handle, a miss sends the goroutine to `s.rwMutex.Lock()`
  region t    the write-lock region. Part 1: [re-check of s.families iff `recheck`]; "is the family new" =
              the family directory does not exist; a new family gets `familySeq+1`, is entered into
              `storeInfo.Families` and OPTIONS is rewritten; the option used for the open is read.
              Part 2 (`newFamilyFunc`): mkdir of the family directory, `createFamilyVersion(name, id)`
              (returns the EXISTING family version of that name if there is one), a NEW family object
              (own pendingOutputs) carrying the option's id. Part 3: `s.families[nm] = family`.
              When the write lock is held from the Lock to the return (`held`), parts 1–3 are ONE step.
  openS t / publish t   parts 2 and 3 as steps of their own — enabled only when `held = false`
              (the open runs outside the lock; the publication re-takes it).

`held` and `recheck` are regenerated facts (Generated.C01.createFamilyLockHeldToReturn,
createFamilyPublishesAfterLock, createFamilyRechecksUnderLock).

The second half of the state (pending outputs per family OBJECT, table files and live tables per family
NAME) is what makes two objects for one family matter: `family.deleteObsoleteFiles` protects the
pending outputs of the object it is called on only.
-/
namespace LinVerif.C01CF

structure Cfg where
  held : Bool
  recheck : Bool
  deriving DecidableEq, Repr

/-- a family object: `hid` identifies the object, `id` is `family.ID()` (the id of the option it was built from) -/
structure Handle where
  hid : Nat
  id : Nat
  deriving DecidableEq, Repr

/-- a goroutine inside CreateFamily. pc: 0 not started, 1 waiting for the write lock, 2 part 1 done,
3 part 2 done, 4 returned -/
structure Thr where
  name : Nat
  pc : Nat
  opt : Option Nat
  h : Option Handle
  deriving DecidableEq, Repr

structure St where
  seq : Nat                          -- store.familySeq
  info : Nat → Option Nat            -- storeInfo.Families: name → id
  options : Nat → Option Nat         -- OPTIONS on disk: name → id
  dirs : Nat → Bool                  -- family directory exists
  fvs : Nat → Option Nat             -- version set: family version by NAME → its id
  fams : Nat → Option Handle         -- s.families
  nextH : Nat
  thr : Nat → Thr
  opened : List (Nat × Handle)       -- every (name, handle) a CreateFamily call has returned
  pending : Nat → List Nat           -- pendingOutputs of the family OBJECT hid
  tables : Nat → List Nat            -- table files in the directory of family NAME
  live : Nat → List Nat              -- tables the current version of family NAME references

def St.init : St :=
  ⟨0, fun _ => none, fun _ => none, fun _ => false, fun _ => none, fun _ => none, 0,
   fun _ => ⟨0, 0, none, none⟩, [], fun _ => [], fun _ => [], fun _ => []⟩

def upd {α : Type} (f : Nat → α) (i : Nat) (a : α) : Nat → α := fun j => if j = i then a else f j

inductive Step
  | fast (t nm : Nat)
  | region (t : Nat)
  | openS (t : Nat)
  | publish (t : Nat)
  | fstart (hid nm n : Nat)      -- a flusher of object hid allocates table n: pending output, file created
  | cleanup (hid nm : Nat)       -- object hid runs deleteObsoleteFiles on the directory of nm
  | fcommit (hid nm n : Nat)     -- the flusher commits: n is live, no longer pending
  deriving DecidableEq, Repr

/-- part 1 of the write-lock region -/
def part1 (cfg : Cfg) (s : St) (t : Nat) : St :=
  let th := s.thr t
  let nm := th.name
  match (if cfg.recheck then s.fams nm else none) with
  | some h => { s with thr := upd s.thr t { th with pc := 4, h := some h }, opened := s.opened ++ [(nm, h)] }
  | none =>
    let s1 : St :=
      if s.dirs nm then s
      else
        let info' := upd s.info nm (some (s.seq + 1))
        { s with seq := s.seq + 1, info := info', options := info' }
    { s1 with thr := upd s1.thr t { th with pc := 2, opt := s1.info nm } }

/-- part 2: newFamilyFunc(s, option). A zero option (directory exists, no option known) has no merger: error. -/
def part2 (s : St) (t : Nat) : St :=
  let th := s.thr t
  let nm := th.name
  match th.opt with
  | none => { s with thr := upd s.thr t { th with pc := 4 } }
  | some id =>
    let h : Handle := ⟨s.nextH, id⟩
    { s with dirs := upd s.dirs nm true,
             fvs := upd s.fvs nm (some ((s.fvs nm).getD id)),
             nextH := s.nextH + 1,
             thr := upd s.thr t { th with pc := 3, h := some h } }

/-- part 3: `s.families[nm] = family; return family` -/
def part3 (s : St) (t : Nat) : St :=
  let th := s.thr t
  match th.h with
  | none => { s with thr := upd s.thr t { th with pc := 4 } }
  | some h =>
    { s with fams := upd s.fams th.name (some h), opened := s.opened ++ [(th.name, h)],
             thr := upd s.thr t { th with pc := 4 } }

/-- the whole write-lock region as one step (lock held from Lock to return) -/
def regionAll (cfg : Cfg) (s : St) (t : Nat) : St :=
  let s1 := part1 cfg s t
  if (s1.thr t).pc = 4 then s1 else
  let s2 := part2 s1 t
  if (s2.thr t).pc = 4 then s2 else part3 s2 t

def step (cfg : Cfg) (s : St) : Step → St
  | .fast t nm =>
    if (s.thr t).pc ≠ 0 then s else
    match s.fams nm with
    | some h => { s with thr := upd s.thr t ⟨nm, 4, none, some h⟩, opened := s.opened ++ [(nm, h)] }
    | none => { s with thr := upd s.thr t ⟨nm, 1, none, none⟩ }
  | .region t =>
    if (s.thr t).pc ≠ 1 then s else
    if cfg.held then regionAll cfg s t else part1 cfg s t
  | .openS t => if cfg.held || (s.thr t).pc ≠ 2 then s else part2 s t
  | .publish t => if cfg.held || (s.thr t).pc ≠ 3 then s else part3 s t
  | .fstart hid nm n => { s with pending := upd s.pending hid (n :: s.pending hid), tables := upd s.tables nm (n :: s.tables nm) }
  | .cleanup hid nm =>
    { s with tables := upd s.tables nm ((s.tables nm).filter (fun n => (s.pending hid).contains n || (s.live nm).contains n)) }
  | .fcommit hid nm n => { s with live := upd s.live nm (n :: s.live nm), pending := upd s.pending hid ((s.pending hid).filter (· ≠ n)) }

def run (cfg : Cfg) (s : St) (steps : List Step) : St := steps.foldl (step cfg) s

/-- the schedule the correspondence harness realises: both creators miss in the read-locked lookup and stand
before `s.rwMutex.Lock()`; creator 0 runs up to `point` (a file-system seam inside / after the region),
creator 1 runs as far as the lock lets it, then 0 continues, then 1. -/
def raceSchedule (cfg : Cfg) (nm : Nat) (point : String) : List Step :=
  if cfg.held then [.fast 0 nm, .fast 1 nm, .region 0, .region 1]
  else if point = "pre-mkfam" then [.fast 0 nm, .fast 1 nm, .region 0, .region 1, .openS 1, .publish 1, .openS 0, .publish 0]
  else [.fast 0 nm, .fast 1 nm, .region 0, .openS 0, .region 1, .openS 1, .publish 1, .publish 0]

/-- what the harness observes of a race: the ids of the handles creators 0 and 1 got, the id OPTIONS holds,
how many distinct family objects were handed out -/
def raceObs (s : St) (nm : Nat) : String :=
  let idOf (t : Nat) : String := match (s.thr t).h with | some h => toString h.id | none => "-1"
  let objs := ((s.opened.filter (fun e => e.1 = nm)).map (·.2.hid)).eraseDups
  s!"ids={idOf 0},{idOf 1} opts={match s.options nm with | some i => toString i | none => "-1"} handles={objs.length}"

/-- the witness schedule: two creators, a flusher of the object that is NOT published has table 7 open, the
published object cleans up, the flusher commits. Output: objects handed out, is the committed table there. -/
def witnessObs (cfg : Cfg) (nm : Nat) : String :=
  let s := run cfg St.init (raceSchedule cfg nm "pre-mkfam")
  let pub := match s.fams nm with | some h => h.hid | none => 0
  let other := match (s.opened.filter (fun e => e.1 = nm && e.2.hid != pub)).head? with | some e => e.2.hid | none => pub
  let s2 := run cfg s [.fstart other nm 7, .cleanup pub nm, .fcommit other nm 7]
  let objs := ((s.opened.filter (fun e => e.1 = nm)).map (·.2.hid)).eraseDups
  s!"handles={objs.length} committed-table-present={(s2.live nm).all (fun n => (s2.tables nm).contains n)}"

end LinVerif.C01CF
