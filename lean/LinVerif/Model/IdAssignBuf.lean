/-
C09 — the argument buffer made explicit (core Lean only).

The write path hands names to the get-or-create calls as VIEWS into a byte buffer it reuses:
`metric.StorageRow` is a flat-buffer view over the replica's decode block, `row.NameSpace()`,
`row.Name()`, `KeyValueIterator.NextKey/NextValue` return sub-slices of that block, and the block is
overwritten by the next batch (`StorageBatchRows.UnmarshalRows` re-points the pooled rows).

  index/kv_store.go            createValue     `kvs[string(key)] = id`          (a copy)
  index/metric_schema_store.go genTagKeyID     `tag.Meta{Key: string(tagKey)}`  (a copy)
  series/metric/row_readonly.go NextName       `field.Name(itr.f.Name())`       (a copy made by the caller)

The contract: *the store keeps no reference to the caller's bytes*. Here a dictionary keeps `Key`s that
are either an own copy (`Key.own`) or a reference into the caller's buffer (`Key.ref`, what the zero-copy
conversion `strutil.ByteSlice2String(key)` would store); `alias` selects which one `getOrCreate` stores.
A reference is resolved against the buffer as it is when the dictionary is searched — an idealisation in
favour of the aliasing store (a real Go map would in addition look in the hash slot of the OLD bytes).

`Lemmas/C09Buf.lean` proves, for the copying store and every history of calls and buffer writes:
the answers are those of the value-level dictionary fed with copies taken at call time (`run_copy_eq_values`),
hence same name ⇒ same id and different names ⇒ different ids whatever is written into the buffer later
(`buf_stable`, `buf_injective`), and no later write changes what any name resolves to (`find_indep`).
The aliasing store is refuted on a concrete history (`Neg.alias_shares_id`).

The second half decodes the harness's names from the bytes of a view (`m12`, `k3`, `v5`, `f7`, `ans0`), so
that the driver's buffer operations (`bload`, `bmetric`, `btagkey`, …) run the SAME node operations as the
number-based ones, on the names found in the model's own copy of the block.
-/
namespace LinVerif.IdAssign.Buf

abbrev Bytes := List Nat

/-- a sub-slice `buf[off : off+len]` -/
structure View where
  off : Nat
  len : Nat
  deriving DecidableEq, Repr

/-- the bytes a view shows now (`none`: out of range — the Go slice expression would panic) -/
def read (buf : Bytes) (v : View) : Option Bytes :=
  if v.off + v.len ≤ buf.length then some ((buf.drop v.off).take v.len) else none

/-- the bytes a view shows now, total (stale references past the end read what is there) -/
def peek (buf : Bytes) (v : View) : Bytes := (buf.drop v.off).take v.len

/-- `copy(buf[off:], bs)`: the caller decodes the next batch into its buffer -/
def write (buf : Bytes) (off : Nat) (bs : Bytes) : Bytes :=
  buf.take off ++ (bs.take (buf.length - off)) ++ buf.drop (off + bs.length)

/-- what a dictionary keeps as the key of an entry -/
inductive Key
  | own (bs : Bytes)   -- `string(key)`: bytes of its own
  | ref (v : View)     -- `strutil.ByteSlice2String(key)`: the caller's bytes
  deriving DecidableEq, Repr

def Key.bytes (buf : Bytes) : Key → Bytes
  | .own bs => bs
  | .ref v => peek buf v

/-- one dictionary bucket: entries newest first, and the counter (`createFn`) -/
structure Store where
  entries : List (Key × Nat) := []
  next : Nat := 0
  deriving Repr

def findIn (buf : Bytes) (name : Bytes) : List (Key × Nat) → Option Nat
  | [] => none
  | e :: es => if e.1.bytes buf = name then some e.2 else findIn buf name es

/-- lookup of a name (given by value) while the caller's buffer holds `buf` -/
def Store.find (s : Store) (buf : Bytes) (name : Bytes) : Option Nat := findIn buf name s.entries

/-- get-or-create of the name that view `v` of the caller's buffer shows -/
def Store.getOrCreate (alias : Bool) (s : Store) (buf : Bytes) (v : View) : Store × Nat :=
  let name := peek buf v
  match s.find buf name with
  | some i => (s, i)
  | none => ({ entries := ((if alias then Key.ref v else Key.own name), s.next) :: s.entries, next := s.next + 1 }, s.next)

/-- what the caller does -/
inductive Op
  | call (v : View)                -- get-or-create with a view into the buffer
  | write (off : Nat) (bs : Bytes) -- overwrite part of the buffer (next row / next batch)
  deriving Repr

/-- run a history; the observations are (copy of the name taken at call time, id answered) -/
def run (alias : Bool) : Store → Bytes → List Op → List (Bytes × Nat)
  | _, _, [] => []
  | s, buf, .call v :: ops =>
    let r := s.getOrCreate alias buf v
    (peek buf v, r.2) :: run alias r.1 buf ops
  | s, buf, .write off bs :: ops => run alias s (write buf off bs) ops

/-! ### the value-level dictionary (what the rest of the C09 model uses: names are values) -/

def vfind (name : Bytes) : List (Bytes × Nat) → Option Nat
  | [] => none
  | e :: es => if e.1 = name then some e.2 else vfind name es

structure VStore where
  entries : List (Bytes × Nat) := []
  next : Nat := 0

def VStore.getOrCreate (s : VStore) (name : Bytes) : VStore × Nat :=
  match vfind name s.entries with
  | some i => (s, i)
  | none => ({ entries := (name, s.next) :: s.entries, next := s.next + 1 }, s.next)

def vrun : VStore → List Bytes → List (Bytes × Nat)
  | _, [] => []
  | s, n :: ns => let r := s.getOrCreate n; (n, r.2) :: vrun r.1 ns

/-- the copies the callee takes: every call's view resolved against the buffer as it is at that call -/
def materialize : Bytes → List Op → List Bytes
  | _, [] => []
  | buf, .call v :: ops => peek buf v :: materialize buf ops
  | buf, .write off bs :: ops => materialize (write buf off bs) ops

/-! ### names of the harness, decoded from bytes -/

def digitsVal : List Nat → Option Nat
  | [] => none
  | ds => ds.foldl (fun acc d => match acc with
      | some a => if 48 ≤ d ∧ d ≤ 57 then some (a * 10 + (d - 48)) else none
      | none => none) (some 0)

/-- a decimal number without leading zeros (so that decoding is injective) -/
def decimal (ds : List Nat) : Option Nat :=
  match ds with
  | [] => none
  | [d] => digitsVal [d]
  | 48 :: _ => none
  | _ => digitsVal ds

/-- `<prefix byte><decimal>`: m12, k3, v5, f7 -/
def decodeName (pfx : Nat) (bs : Bytes) : Option Nat :=
  match bs with
  | p :: ds => if p = pfx then decimal ds else none
  | [] => none

/-- a namespace `<c>ns<decimal>`; answers (bucket = first byte, number) -/
def decodeNs (bs : Bytes) : Option (Nat × Nat) :=
  match bs with
  | c :: 110 :: 115 :: ds => (decimal ds).map (fun k => (c, k))
  | _ => none

def hexVal (c : Char) : Option Nat :=
  if '0' ≤ c ∧ c ≤ '9' then some (c.toNat - '0'.toNat)
  else if 'a' ≤ c ∧ c ≤ 'f' then some (c.toNat - 'a'.toNat + 10)
  else none

def hexBytes : List Char → Option Bytes
  | [] => some []
  | [_] => none
  | a :: b :: rest => do
    let x ← hexVal a
    let y ← hexVal b
    let r ← hexBytes rest
    some ((x * 16 + y) :: r)

end LinVerif.IdAssign.Buf
