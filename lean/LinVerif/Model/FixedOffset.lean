/-
Byte-exact model of pkg/encoding/fixed_offset.go (+ `Uint32MinWidth` of encoding.go), core Lean only.
Go `int` is 64 bit: offsets are `Int`; the only wrap-around that input can reach is in
`Unmarshal` (`int(size)`, `d.width*d.size`), modelled with `toI64`.
-/
import LinVerif.Model.Varint

namespace LinVerif.FixedOffset
open LinVerif.Varint

/-- `Uint32MinWidth(value uint32)` -/
def uint32MinWidth (v : Nat) : Nat :=
  if v < 256 then 1 else if v < 65536 then 2 else if v < 16777216 then 3 else 4

structure Enc where
  values : List Int
  max : Int
  ensureIncreasing : Bool
  deriving DecidableEq, Repr

/-- `NewFixedOffsetEncoder(ensureIncreasing)` -/
def Enc.fresh (inc : Bool) : Enc := { values := [], max := 0, ensureIncreasing := inc }

/-- `Reset()` -/
def Enc.reset (e : Enc) : Enc := { e with values := [], max := 0 }

inductive AddErr | notIncreasing | negative
  deriving DecidableEq, Repr

/-- `Add(v)`: the two `panic`s are the error results -/
def Enc.add (e : Enc) (v : Int) : Except AddErr Enc :=
  if e.ensureIncreasing ∧ e.values ≠ [] ∧ e.values.getLast?.getD 0 > v then .error .notIncreasing
  else if v < 0 then .error .negative
  else .ok { e with values := e.values ++ [v], max := if e.max < v then v else e.max }

/-- `FromValues(values)` -/
def Enc.fromValues (e : Enc) (vs : List Int) : Enc :=
  { e with values := vs, max := vs.foldl (fun m v => if m < v then v else m) 0 }

/-- `IsEmpty()`: `len(e.values) == 0` -/
def Enc.isEmpty (e : Enc) : Bool := e.values.length == 0

/-- `width()` -/
def Enc.width (e : Enc) : Nat := uint32MinWidth (toU32 e.max)

/-- the first `w` little-endian bytes of `uint32(value)` -/
def leBytes (w : Nat) (v : Nat) : List Nat :=
  ([v % 256, (v / 256) % 256, (v / 65536) % 256, (v / 16777216) % 256]).take w

/-- `MarshalBinary()` / `Write(w)`: nothing at all for an empty table -/
def Enc.marshal (e : Enc) : List Nat :=
  if e.values = [] then []
  else
    let w := e.width
    [w] ++ putUvarint e.values.length ++ e.values.flatMap (fun v => leBytes w (toU32 v))

/-- `MarshalSize()` -/
def Enc.marshalSize (e : Enc) : Nat :=
  1 + uvariantSize e.values.length + e.values.length * e.width

structure Dec where
  block : List Nat
  width : Int
  size : Int
  deriving DecidableEq, Repr

/-- `NewFixedOffsetDecoder()` -/
def Dec.fresh : Dec := { block := [], width := 0, size := 0 }

inductive UErr | tooShort | badWidth | badUvarint | badLength
  deriving DecidableEq, Repr

/-- `Unmarshal(data)` → (`ok left` | error, decoder). The first three statements clear the RECEIVER's
fields (`d.offsetsBlock = d.offsetsBlock[:0]; d.width = 0; d.size = 0`) before any validation, so every
error return leaves an empty table whatever the object held (lindb relies on it: `dataScanner` calls
`Unmarshal(nil)` to empty its decoder, `readSeriesData` ignores the error on a pooled decoder). -/
def Dec.unmarshal (d : Dec) (data : List Nat) : Except UErr (List Nat) × Dec :=
  let d0 : Dec := { d with block := d.block.take 0, width := 0, size := 0 }
  if data.length < 2 then (.error .tooShort, d0)
  else
    let width : Int := (data.getD 0 0 : Nat)
    let d1 := { d0 with width := width }
    if width < 0 ∨ width > 4 then (.error .badWidth, d1)
    else
      let (size, readBytes) := stdUvarint (data.drop 1)
      if readBytes ≤ 0 then (.error .badUvarint, d1)
      else
        let sz := toI64 (size : Int)
        let d2 := { d1 with size := sz }
        let wantLen := toI64 (1 + readBytes + toI64 (width * sz))
        if wantLen > data.length ∨ wantLen < 0 ∨ 1 + readBytes > wantLen then (.error .badLength, d2)
        else
          let lo := (1 + readBytes).toNat
          let hi := wantLen.toNat
          (.ok (data.drop hi), { d2 with block := (data.take hi).drop lo })

/-- `Size()` -/
def Dec.sizeOf (d : Dec) : Int := if d.width = 0 then 0 else d.size

/-- `Get(index)` (index and products below 2^63: no wrap-around is modelled here) -/
def Dec.get (d : Dec) (index : Int) : Option Int :=
  let start := index * d.width
  if start < 0 ∨ d.block.length = 0 ∨ start ≥ d.block.length ∨ d.width > 4 then none
  else
    let end' := start + d.width
    if end' > d.block.length then none
    else
      let bs := (d.block.drop start.toNat).take d.width.toNat
      some ((bs.getD 0 0 + 256 * bs.getD 1 0 + 65536 * bs.getD 2 0 + 16777216 * bs.getD 3 0 : Nat) : Int)

inductive BErr | corruptedIndex | corruptedRange
  deriving DecidableEq, Repr

/-- `GetBlock(index, dataBlock)` -/
def Dec.getBlock (d : Dec) (index : Int) (dataBlock : List Nat) : Except BErr (List Nat) :=
  match d.get index with
  | none => .error .corruptedIndex
  | some startOffset =>
    let endOffset : Int := (d.get (index + 1)).getD dataBlock.length
    if startOffset < 0 ∨ endOffset < 0 ∨ endOffset < startOffset ∨ endOffset > dataBlock.length then
      .error .corruptedRange
    else .ok ((dataBlock.take endOffset.toNat).drop startOffset.toNat)

/-- NOT lindb's code: an `Unmarshal` that validates into locals and assigns the receiver's fields only after
the last check ("commit on success"), i.e. without the three clearing statements. Used only by
`Props.C14.Neg.unmarshal_commit_on_success_is_stale` to show what the clearing is needed for. -/
def Dec.unmarshalCommitOnSuccess (d : Dec) (data : List Nat) : Except UErr (List Nat) × Dec :=
  match (Dec.fresh.unmarshal data) with
  | (.ok left, d') => (.ok left, d')
  | (.error e, _) => (.error e, d)

/-- the error of an `Unmarshal` result, `none` when it was accepted (decidable form for witnesses) -/
def errOf (r : Except UErr (List Nat)) : Option UErr := match r with | .error e => some e | .ok _ => none

/-- a reuse history of ONE decoder object: every input is given to `Unmarshal`, errors ignored -/
def Dec.feed (d : Dec) (inputs : List (List Nat)) : Dec :=
  inputs.foldl (fun d i => (d.unmarshal i).2) d

/-! Round 12: a decoder OBJECT under a history of calls. `Get`, `GetBlock`, `Size`, `ValueWidth` assign no field of
the receiver in the source (regenerated facts `fixedOffsetDecoder*Writes`), so a read returns the object unchanged;
only `Unmarshal` changes it. -/

/-- one call on a `FixedOffsetDecoder` -/
inductive DecOp
  | unm (data : List Nat)
  | get (i : Int)
  | blk (i : Int) (data : List Nat)
  | size
  | width

/-- what the call returned -/
inductive DecAns
  | unm (r : Except UErr (List Nat))
  | get (o : Option Int)
  | blk (r : Except BErr (List Nat))
  | int (n : Int)

/-- one call: answer and the object afterwards -/
def Dec.step (d : Dec) : DecOp → DecAns × Dec
  | .unm data => (.unm (d.unmarshal data).1, (d.unmarshal data).2)
  | .get i => (.get (d.get i), d)
  | .blk i data => (.blk (d.getBlock i data), d)
  | .size => (.int d.sizeOf, d)
  | .width => (.int d.width, d)

/-- a history of calls on one object: the answers in order and the object afterwards -/
def Dec.run (d : Dec) : List DecOp → List DecAns × Dec
  | [] => ([], d)
  | op :: ops => ((d.step op).1 :: ((d.step op).2.run ops).1, ((d.step op).2.run ops).2)

/-- the inputs of the `Unmarshal` calls of a history, in order -/
def unmInputs : List DecOp → List (List Nat)
  | [] => []
  | .unm x :: r => x :: unmInputs r
  | _ :: r => unmInputs r

/-- NOT lindb's code: a decoder with a "sequential scan cursor" — `GetBlock(i)` remembers `(i+1, offset[i+1])` and a
following `GetBlock(i+1)` takes its start offset from there; `Unmarshal` does not drop the cursor. Used only by
`Props.C14.Neg.scan_cursor_survives_unmarshal` to show what "reads leave no trace" protects against. -/
structure DecC where
  d : Dec
  nextIndex : Int
  nextOffset : Int

def DecC.fresh : DecC := { d := Dec.fresh, nextIndex := 0, nextOffset := 0 }

def DecC.unmarshal (c : DecC) (data : List Nat) : DecC := { c with d := (c.d.unmarshal data).2 }

def DecC.getBlock (c : DecC) (index : Int) (dataBlock : List Nat) : Except BErr (List Nat) × DecC :=
  let start? : Option Int := if index > 0 ∧ index = c.nextIndex then some c.nextOffset else c.d.get index
  match start? with
  | none => (.error .corruptedIndex, c)
  | some startOffset =>
    let c' : DecC := match c.d.get (index + 1) with
      | some e => { c with nextIndex := index + 1, nextOffset := e }
      | none => { c with nextIndex := 0 }
    let endOffset : Int := (c.d.get (index + 1)).getD dataBlock.length
    if startOffset < 0 ∨ endOffset < 0 ∨ endOffset < startOffset ∨ endOffset > dataBlock.length then
      (.error .corruptedRange, c')
    else (.ok ((dataBlock.take endOffset.toNat).drop startOffset.toNat), c')

/-- decidable view of a `GetBlock` result -/
def blkOf (r : Except BErr (List Nat)) : Option (List Nat) := match r with | .ok b => some b | .error _ => none

end LinVerif.FixedOffset
