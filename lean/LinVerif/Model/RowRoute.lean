/-
C12 — routing of the rows of one shard group to data families (core Lean only).

Mirrors series/metric/row_broker.go: BrokerBatchShardFamilyIterator.reset (fast path
`isSameFamily`, otherwise `sort.Sort` by timestamp), HasNextFamily / NextFamily (maximal runs of rows
inside the family range of the run's first row).

A row is `(id, timestamp)`. The family of a timestamp (`IntervalCalculator.CalcFamilyTime`; the
family range `timeRangeOfTimestamp(t)` contains `u` iff both have the same family) is the parameter
`fam`. `sort.Sort` is not stable: rows with equal timestamps come out in an unspecified order — the
insertion sort below is one admissible outcome; the driver prints every group's ids sorted.
-/
namespace LinVerif.RowRoute

abbrev Row := Nat × Nat

/-- insertion into a list sorted by timestamp -/
def insTs (r : Row) : List Row → List Row
  | [] => [r]
  | x :: xs => if r.2 ≤ x.2 then r :: x :: xs else x :: insTs r xs

/-- `sort.Sort(itr.rows)` (familySortedRows: by timestamp) -/
def sortTs (rows : List Row) : List Row := rows.foldr insTs []

/-- the HasNextFamily loop over a list: maximal runs of consecutive rows with the same family
(run boundaries do not depend on the direction the list is walked in) -/
def runs (fam : Nat → Nat) : List Row → List (Nat × List Row)
  | [] => []
  | r :: rest =>
    match runs fam rest with
    | [] => [(fam r.2, [r])]
    | g :: gs => if fam r.2 = g.1 then (g.1, r :: g.2) :: gs else (fam r.2, [r]) :: g :: gs

/-- isSameFamily: every row from the second on lies in the family range of the FIRST row -/
def sameFamily (fam : Nat → Nat) : List Row → Bool
  | [] => true
  | r0 :: rest => rest.all (fun r => fam r.2 == fam r0.2)

/-- reset + the HasNextFamily/NextFamily loop: `(familyTime, rows)` in hand-out order -/
def familyGroups (fam : Nat → Nat) (rows : List Row) : List (Nat × List Row) :=
  match rows with
  | [] => []
  | r0 :: rest => if sameFamily fam (r0 :: rest) then [(fam r0.2, r0 :: rest)] else runs fam (sortTs (r0 :: rest))

/-- the fast path that looks only at the LAST row of the group (seeded change c12-8) -/
def sameFamilyFirstLast (fam : Nat → Nat) : List Row → Bool
  | [] => true
  | r0 :: rest => match rest.getLast? with
    | none => true
    | some l => fam l.2 == fam r0.2

def familyGroupsFirstLast (fam : Nat → Nat) (rows : List Row) : List (Nat × List Row) :=
  match rows with
  | [] => []
  | r0 :: rest => if sameFamilyFirstLast fam (r0 :: rest) then [(fam r0.2, r0 :: rest)] else runs fam (sortTs (r0 :: rest))

end LinVerif.RowRoute
