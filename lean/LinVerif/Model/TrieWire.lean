/-
C20 model: the serialised byte layout of a succinct trie (core Lean only) —
`builder.Write` / `MarshalSize` (builder.go), `labelVector.Write`, `bitVector.write`,
`rankVector.Write`, `selectVector.Write`, `compressPathVector.Write` and the matching
`trie.UnmarshalBinary` / `*.Unmarshal` readers.

Layout (all integers little endian):
  u32 totalKeys | u32 height
  | labels:    u32 numBytes, bytes
  | hasChild:  rank vector
  | louds:     select vector
  | prefixes:  rank vector (hasPrefix), u32 4·#offsets, u32 #data, offsets (u32 each), data
  | suffixes:  the same with hasSuffix
  | values:    totalKeys × u32
rank vector   = u32 numBits, numWords(numBits) × u64 (bit i of the vector = bit i%64 of word i/64),
                u32 blockSize, (numBits/blockSize + 1) × u32 table
select vector = u32 numBits, words as above, u32 numOnes, (numOnes/64 + 1) × u32 table
-/
import LinVerif.Model.Louds

namespace LinVerif.TrieWire
open LinVerif.Louds

/-! ### integers and bit words -/

/-- `endian.PutUint32` -/
def u32le (n : Nat) : List Nat := [n % 256, n / 256 % 256, n / 65536 % 256, n / 16777216 % 256]

/-- `endian.Uint32` + advancing the buffer -/
def readU32 : List Nat → Option (Nat × List Nat)
  | a :: b :: c :: d :: r => some (a + 256 * b + 65536 * c + 16777216 * d, r)
  | _ => none

def readBytes (n : Nat) (buf : List Nat) : Option (List Nat × List Nat) :=
  if buf.length < n then none else some (buf.take n, buf.drop n)

/-- `encoding.BytesToU32Slice` of the next `count` words -/
def readU32s : Nat → List Nat → Option (List Nat × List Nat)
  | 0, buf => some ([], buf)
  | n + 1, buf =>
    match readU32 buf with
    | none => none
    | some (x, r) =>
      match readU32s n r with
      | none => none
      | some (xs, r') => some (x :: xs, r')

/-- `bitVector.numWords` -/
def numWords (numBits : Nat) : Nat := numBits / wordSize + (if numBits % wordSize != 0 then 1 else 0)

/-- one byte from 8 bits, least significant first -/
def byteOfBits : List Bool → Nat
  | [] => 0
  | b :: r => (if b then 1 else 0) + 2 * byteOfBits r

def bitsOfByte (n : Nat) : List Bool :=
  [n % 2 == 1, n / 2 % 2 == 1, n / 4 % 2 == 1, n / 8 % 2 == 1,
   n / 16 % 2 == 1, n / 32 % 2 == 1, n / 64 % 2 == 1, n / 128 % 2 == 1]

/-- bytes of a bit list whose length is a multiple of 8 -/
def packBytes : List Bool → List Nat
  | a :: b :: c :: d :: e :: f :: g :: h :: r => byteOfBits [a, b, c, d, e, f, g, h] :: packBytes r
  | _ => []

/-- `encoding.U64SliceToBytes(v.bits[:v.words])`: the bits padded with zeros to whole 64-bit words -/
def bitsToBytes (bs : List Bool) : List Nat :=
  packBytes (bs ++ List.replicate (numWords bs.length * wordSize - bs.length) false)

/-- `bitVector.unmarshal` after `numBits`: read `numWords * 8` bytes, keep the first `numBits` bits -/
def readBits (numBits : Nat) (buf : List Nat) : Option (List Bool × List Nat) :=
  match readBytes (numWords numBits * 8) buf with
  | none => none
  | some (bytes, r) => some ((bytes.flatMap bitsOfByte).take numBits, r)

/-! ### the vectors -/

structure RankVec where
  bits : List Bool
  blockSize : Nat
  lut : List Nat
  deriving Repr, DecidableEq

structure SelVec where
  bits : List Bool
  numOnes : Nat
  lut : List Nat
  deriving Repr, DecidableEq

structure PathVec where
  has : RankVec
  offsets : List Nat
  data : List Nat
  deriving Repr, DecidableEq

/-- what `trie.UnmarshalBinary` leaves in a `trie` -/
structure Wire where
  totalKeys : Nat
  height : Nat
  labels : List Nat
  hasChild : RankVec
  louds : SelVec
  pfx : PathVec
  sfx : PathVec
  values : List Nat
  deriving Repr, DecidableEq

def u32s (xs : List Nat) : List Nat := xs.flatMap u32le

/-- `rankVector.Write` -/
def writeRank (v : RankVec) : List Nat :=
  u32le v.bits.length ++ bitsToBytes v.bits ++ u32le v.blockSize ++ u32s v.lut

/-- `selectVector.Write` -/
def writeSel (v : SelVec) : List Nat :=
  u32le v.bits.length ++ bitsToBytes v.bits ++ u32le v.numOnes ++ u32s v.lut

/-- `compressPathVector.Write` -/
def writePath (v : PathVec) : List Nat :=
  writeRank v.has ++ u32le (v.offsets.length * 4) ++ u32le v.data.length ++ u32s v.offsets ++ v.data

/-- `builder.Write` -/
def marshal (w : Wire) : List Nat :=
  u32le w.totalKeys ++ u32le w.height ++
  (u32le w.labels.length ++ w.labels) ++
  writeRank w.hasChild ++ writeSel w.louds ++ writePath w.pfx ++ writePath w.sfx ++ u32s w.values

/-- `builder.MarshalSize` -/
def rankSize (v : RankVec) : Nat := 4 + 4 + (numWords v.bits.length * 8 + (v.bits.length / v.blockSize + 1) * 4)
def selSize (v : SelVec) : Nat := 4 + 4 + (numWords v.bits.length * 8 + (v.numOnes / selectSampleInterval + 1) * 4)
def pathSize (v : PathVec) : Nat := rankSize v.has + 8 + v.offsets.length * 4 + v.data.length
def marshalSize (w : Wire) : Nat :=
  4 + 4 + (4 + w.labels.length) + rankSize w.hasChild + selSize w.louds + pathSize w.pfx + pathSize w.sfx +
    w.totalKeys * 4

/-- `rankVector.Unmarshal` -/
def readRank (buf : List Nat) : Option (RankVec × List Nat) :=
  if buf.length < 8 then none else
  match readU32 buf with
  | none => none
  | some (numBits, r1) =>
    match readBits numBits r1 with
    | none => none
    | some (bits, r2) =>
      match readU32 r2 with
      | none => none
      | some (blockSize, r3) =>
        if blockSize == 0 then none else      -- the Go code divides by blockSize
        match readU32s (numBits / blockSize + 1) r3 with
        | none => none
        | some (lut, r4) => some ({ bits := bits, blockSize := blockSize, lut := lut }, r4)

/-- `selectVector.Unmarshal` -/
def readSel (buf : List Nat) : Option (SelVec × List Nat) :=
  if buf.length < 8 then none else
  match readU32 buf with
  | none => none
  | some (numBits, r1) =>
    match readBits numBits r1 with
    | none => none
    | some (bits, r2) =>
      match readU32 r2 with
      | none => none
      | some (numOnes, r3) =>
        match readU32s (numOnes / selectSampleInterval + 1) r3 with
        | none => none
        | some (lut, r4) => some ({ bits := bits, numOnes := numOnes, lut := lut }, r4)

/-- `compressPathVector.Unmarshal` -/
def readPath (buf : List Nat) : Option (PathVec × List Nat) :=
  match readRank buf with
  | none => none
  | some (has, r1) =>
    match readU32 r1 with
    | none => none
    | some (offsetsLen, r2) =>
      match readU32 r2 with
      | none => none
      | some (dataLen, r3) =>
        if r3.length < offsetsLen + dataLen then none else
        match readU32s (offsetsLen / 4) r3 with
        | none => none
        | some (offsets, r4) =>
          match readBytes dataLen r4 with
          | none => none
          | some (data, r5) => some ({ has := has, offsets := offsets, data := data }, r5)

/-- `trie.UnmarshalBinary` -/
def unmarshal (buf : List Nat) : Option Wire :=
  if buf.length ≤ 8 then none else
  match readU32 buf with
  | none => none
  | some (totalKeys, r1) =>
    match readU32 r1 with
    | none => none
    | some (height, r2) =>
      match readU32 r2 with
      | none => none
      | some (numLabels, r3) =>
        match readBytes numLabels r3 with
        | none => none
        | some (labels, r4) =>
          match readRank r4 with
          | none => none
          | some (hasChild, r5) =>
            match readSel r5 with
            | none => none
            | some (louds, r6) =>
              match readPath r6 with
              | none => none
              | some (pfx, r7) =>
                match readPath r7 with
                | none => none
                | some (sfx, r8) =>
                  match readU32s totalKeys r8 with
                  | none => none
                  | some (values, _) =>
                    some { totalKeys := totalKeys, height := height, labels := labels, hasChild := hasChild,
                           louds := louds, pfx := pfx, sfx := sfx, values := values }


/-! ### `UnmarshalBinary` with its failure modes, branch for branch

The readers above collapse every failure into `none`. Here the outcome of every statement of
`trie.UnmarshalBinary` / `labelVector.Unmarshal` / `bitVector.unmarshal` / `rankVector.Unmarshal` /
`selectVector.Unmarshal` / `compressPathVector.Unmarshal` / `valueVector.Unmarshal` is kept apart:
`ok`, an `error` return (by which check), or a run-time panic (a slice expression beyond the buffer,
`endian.Uint32` on fewer than 4 bytes, the division by a zero `blockSize`). Lengths that the Go code
computes in `uint32` wrap modulo 2^32 exactly where the code's do. The buffer handed in is sliced to
its end everywhere, so capacity = length. -/

inductive Res (α : Type) where
  | ok (a : α)
  | err (kind : String)
  | panic
  deriving Repr, DecidableEq

/-- a reader: consumes a prefix of the buffer -/
abbrev Rd (α : Type) := List Nat → Res (α × List Nat)

def Rd.bind {α β : Type} (p : Rd α) (q : α → Rd β) : Rd β := fun b =>
  match p b with
  | .ok (x, r) => q x r
  | .err k => .err k
  | .panic => .panic

def Rd.pure {α : Type} (x : α) : Rd α := fun b => .ok (x, b)

/-- `if len(buf) < n { return error }` -/
def need (n : Nat) (kind : String) : Rd Unit := fun b => if b.length < n then .err kind else .ok ((), b)

/-- `endian.Uint32(buf[:4]); buf = buf[4:]` (panics on fewer than 4 bytes) -/
def u32R : Rd Nat := fun b =>
  match readU32 b with
  | none => .panic
  | some (x, r) => .ok (x, r)

/-- `x := buf[:n]; buf = buf[n:]` without a length check (panics when `n > len(buf)`) -/
def bytesP (n : Nat) : Rd (List Nat) := fun b =>
  match readBytes n b with
  | none => .panic
  | some (x, r) => .ok (x, r)

/-- the same behind `if len(buf) < n { return error }` -/
def bytesE (n : Nat) (kind : String) : Rd (List Nat) := fun b =>
  match readBytes n b with
  | none => .err kind
  | some (x, r) => .ok (x, r)

/-- a condition whose failure is a run-time panic -/
def guardP (c : Bool) : Rd Unit := fun b => if c then .ok ((), b) else .panic

def two32 : Nat := 4294967296

/-- `encoding.BytesToU32Slice`: `len/4` little-endian words (trailing bytes ignored) -/
def le32s : List Nat → List Nat
  | a :: b :: c :: d :: r => (a + 256 * b + 65536 * c + 16777216 * d) :: le32s r
  | _ => []

/-- `labelVector.Unmarshal`: `buf[4 : 4+size]` with `4+size` in uint32 -/
def labelsR : Rd (List Nat) :=
  (need 4 "labels-short").bind fun _ => u32R.bind fun size =>
    let hi := (4 + size) % two32
    (guardP (decide (4 ≤ hi))).bind fun _ => bytesP (hi - 4)

/-- `bitVector.unmarshal` after `numBits` -/
def bitsR (numBits : Nat) : Rd (List Bool) :=
  (bytesE (numWords numBits * 8) "bits-short").bind fun bytes =>
    Rd.pure ((bytes.flatMap bitsOfByte).take numBits)

/-- `rankVector.Unmarshal` -/
def rankR : Rd RankVec :=
  (need 8 "rank-header").bind fun _ => u32R.bind fun numBits => (bitsR numBits).bind fun bits =>
    u32R.bind fun blockSize => (guardP (blockSize != 0)).bind fun _ =>
      (bytesE (((numBits / blockSize + 1) * 4) % two32) "rank-lut-short").bind fun lut =>
        Rd.pure { bits := bits, blockSize := blockSize, lut := le32s lut }

/-- `selectVector.Unmarshal` -/
def selR : Rd SelVec :=
  (need 8 "select-header").bind fun _ => u32R.bind fun numBits => (bitsR numBits).bind fun bits =>
    u32R.bind fun numOnes =>
      (bytesE (((numOnes / selectSampleInterval + 1) * 4) % two32) "select-lut-short").bind fun lut =>
        Rd.pure { bits := bits, numOnes := numOnes, lut := le32s lut }

/-- `compressPathVector.Unmarshal` -/
def pathR : Rd PathVec :=
  rankR.bind fun has => (need 8 "path-header").bind fun _ => u32R.bind fun offsetsLen => u32R.bind fun dataLen =>
    (need ((offsetsLen + dataLen) % two32) "path-short").bind fun _ =>
      (bytesP offsetsLen).bind fun offs => (bytesP dataLen).bind fun data =>
        Rd.pure { has := has, offsets := le32s offs, data := data }

/-- `valueVector.Unmarshal(totalKeys, buf)` -/
def valuesR (totalKeys : Nat) : Rd (List Nat) :=
  (bytesP (totalKeys * 4)).bind fun bs => Rd.pure (le32s bs)

/-- `trie.UnmarshalBinary`; the remainder (ignored by the Go code) is returned as well -/
def parseR : Rd Wire :=
  (need 9 "eof").bind fun _ => u32R.bind fun totalKeys => u32R.bind fun height =>
    labelsR.bind fun labels => rankR.bind fun hasChild => selR.bind fun louds =>
      pathR.bind fun pfx => pathR.bind fun sfx => (valuesR totalKeys).bind fun values =>
        Rd.pure { totalKeys := totalKeys, height := height, labels := labels, hasChild := hasChild,
                  louds := louds, pfx := pfx, sfx := sfx, values := values }

def unmarshalR (buf : List Nat) : Res Wire :=
  match parseR buf with
  | .ok (w, _) => .ok w
  | .err k => .err k
  | .panic => .panic

/-! ### unmarshalling into a trie object that was used before (`trie.GetTrie` / `PutTrie` pool)

`UnmarshalBinary` assigns the fields section by section; when a section fails the earlier
assignments stay and the later fields keep what the previous use left. -/

def andThen {α : Type} (st : Wire) (r : Res (α × List Nat)) (k : α → List Nat → Wire × Res Unit) : Wire × Res Unit :=
  match r with
  | .ok (x, rest) => k x rest
  | .err e => (st, .err e)
  | .panic => (st, .panic)

/-- the object after `UnmarshalBinary(buf)` on an object holding `prev`, and the call's outcome -/
def unmarshalInto (prev : Wire) (buf : List Nat) : Wire × Res Unit :=
  andThen prev (((need 9 "eof").bind fun _ => u32R.bind fun tk => u32R.bind fun h => Rd.pure (tk, h)) buf) fun hd r1 =>
    let s1 := { prev with totalKeys := hd.1, height := hd.2 }
    andThen s1 (labelsR r1) fun labels r2 =>
      let s2 := { s1 with labels := labels }
      andThen s2 (rankR r2) fun hc r3 =>
        let s3 := { s2 with hasChild := hc }
        andThen s3 (selR r3) fun lo r4 =>
          let s4 := { s3 with louds := lo }
          andThen s4 (pathR r4) fun pf r5 =>
            let s5 := { s4 with pfx := pf }
            andThen s5 (pathR r5) fun sf r6 =>
              let s6 := { s5 with sfx := sf }
              andThen s6 (valuesR hd.1 r6) fun vs _ => ({ s6 with values := vs }, .ok ())

/-- a digest of everything a `trie` object holds (driver / harness comparison) -/
def boolNat (b : Bool) : Nat := if b then 1 else 0
def wireSeq (w : Wire) : List Nat :=
  [w.totalKeys, w.height] ++ w.labels ++
  w.hasChild.bits.map boolNat ++ [w.hasChild.blockSize] ++ w.hasChild.lut ++
  w.louds.bits.map boolNat ++ [w.louds.numOnes] ++ w.louds.lut ++
  w.pfx.has.bits.map boolNat ++ [w.pfx.has.blockSize] ++ w.pfx.has.lut ++ w.pfx.offsets ++ w.pfx.data ++
  w.sfx.has.bits.map boolNat ++ [w.sfx.has.blockSize] ++ w.sfx.has.lut ++ w.sfx.offsets ++ w.sfx.data ++
  w.values
def digest (xs : List Nat) : Nat := xs.foldl (fun h x => (h * 31 + x + 1) % 1000000007) 7
def showWire (w : Wire) : String :=
  s!"keys={w.totalKeys} height={w.height} labels={w.labels.length} " ++
  s!"hc={w.hasChild.bits.length}/{w.hasChild.blockSize}/{w.hasChild.lut.length} " ++
  s!"louds={w.louds.bits.length}/{w.louds.numOnes}/{w.louds.lut.length} " ++
  s!"pfx={w.pfx.has.bits.length}/{w.pfx.has.blockSize}/{w.pfx.has.lut.length}/{w.pfx.offsets.length}/{w.pfx.data.length} " ++
  s!"sfx={w.sfx.has.bits.length}/{w.sfx.has.blockSize}/{w.sfx.has.lut.length}/{w.sfx.offsets.length}/{w.sfx.data.length} " ++
  s!"values={w.values.length} digest={digest (wireSeq w)}"

/-- the `trie` that `trie.Init(builder)` makes of the encoded vectors -/
def toWire (f : Flat) : Wire :=
  { totalKeys := f.values.length
    height := f.height
    labels := f.labels
    hasChild := { bits := f.hasChild, blockSize := rankSparseBlockSize, lut := f.hasChildLut }
    louds := { bits := f.louds, numOnes := popcount f.louds, lut := f.loudsLut }
    pfx := { has := { bits := f.hasPrefix, blockSize := rankSparseBlockSize, lut := f.hasPrefixLut },
             offsets := pathOffsets 0 f.prefixes, data := pathData f.prefixes }
    sfx := { has := { bits := f.hasSuffix, blockSize := rankSparseBlockSize, lut := f.hasSuffixLut },
             offsets := pathOffsets 0 f.suffixes, data := pathData f.suffixes }
    values := f.values }

end LinVerif.TrieWire
