/-
C20 model: the serialised byte layout of a succinct trie (core Lean only) —
`builder.Write` / `MarshalSize` (builder.go), `labelVector.Write`, `bitVector.write`,
`rankVector.Write`, `selectVector.Write`, `compressPathVector.Write` and the matching
`trie.UnmarshalBinary` / `*.Unmarshal` readers.

Layout (all integers little endian):
  u32 totalKeys | u32 height
  | labels:    u32 numBytes, bytes
  | hasChild:  rank vector
  | louds:     select vector
  | prefixes:  rank vector (hasPrefix), u32 4·#offsets, u32 #data, offsets (u32 each), data
  | suffixes:  the same with hasSuffix
  | values:    totalKeys × u32
rank vector   = u32 numBits, numWords(numBits) × u64 (bit i of the vector = bit i%64 of word i/64),
                u32 blockSize, (numBits/blockSize + 1) × u32 table
select vector = u32 numBits, words as above, u32 numOnes, (numOnes/64 + 1) × u32 table
-/
import LinVerif.Model.Louds

namespace LinVerif.TrieWire
open LinVerif.Louds

/-! ### integers and bit words -/

/-- `endian.PutUint32` -/
def u32le (n : Nat) : List Nat := [n % 256, n / 256 % 256, n / 65536 % 256, n / 16777216 % 256]

/-- `endian.Uint32` + advancing the buffer -/
def readU32 : List Nat → Option (Nat × List Nat)
  | a :: b :: c :: d :: r => some (a + 256 * b + 65536 * c + 16777216 * d, r)
  | _ => none

def readBytes (n : Nat) (buf : List Nat) : Option (List Nat × List Nat) :=
  if buf.length < n then none else some (buf.take n, buf.drop n)

/-- `encoding.BytesToU32Slice` of the next `count` words -/
def readU32s : Nat → List Nat → Option (List Nat × List Nat)
  | 0, buf => some ([], buf)
  | n + 1, buf =>
    match readU32 buf with
    | none => none
    | some (x, r) =>
      match readU32s n r with
      | none => none
      | some (xs, r') => some (x :: xs, r')

/-- `bitVector.numWords` -/
def numWords (numBits : Nat) : Nat := numBits / wordSize + (if numBits % wordSize != 0 then 1 else 0)

/-- one byte from 8 bits, least significant first -/
def byteOfBits : List Bool → Nat
  | [] => 0
  | b :: r => (if b then 1 else 0) + 2 * byteOfBits r

def bitsOfByte (n : Nat) : List Bool :=
  [n % 2 == 1, n / 2 % 2 == 1, n / 4 % 2 == 1, n / 8 % 2 == 1,
   n / 16 % 2 == 1, n / 32 % 2 == 1, n / 64 % 2 == 1, n / 128 % 2 == 1]

/-- bytes of a bit list whose length is a multiple of 8 -/
def packBytes : List Bool → List Nat
  | a :: b :: c :: d :: e :: f :: g :: h :: r => byteOfBits [a, b, c, d, e, f, g, h] :: packBytes r
  | _ => []

/-- `encoding.U64SliceToBytes(v.bits[:v.words])`: the bits padded with zeros to whole 64-bit words -/
def bitsToBytes (bs : List Bool) : List Nat :=
  packBytes (bs ++ List.replicate (numWords bs.length * wordSize - bs.length) false)

/-- `bitVector.unmarshal` after `numBits`: read `numWords * 8` bytes, keep the first `numBits` bits -/
def readBits (numBits : Nat) (buf : List Nat) : Option (List Bool × List Nat) :=
  match readBytes (numWords numBits * 8) buf with
  | none => none
  | some (bytes, r) => some ((bytes.flatMap bitsOfByte).take numBits, r)

/-! ### the vectors -/

structure RankVec where
  bits : List Bool
  blockSize : Nat
  lut : List Nat
  deriving Repr, DecidableEq

structure SelVec where
  bits : List Bool
  numOnes : Nat
  lut : List Nat
  deriving Repr, DecidableEq

structure PathVec where
  has : RankVec
  offsets : List Nat
  data : List Nat
  deriving Repr, DecidableEq

/-- what `trie.UnmarshalBinary` leaves in a `trie` -/
structure Wire where
  totalKeys : Nat
  height : Nat
  labels : List Nat
  hasChild : RankVec
  louds : SelVec
  pfx : PathVec
  sfx : PathVec
  values : List Nat
  deriving Repr, DecidableEq

def u32s (xs : List Nat) : List Nat := xs.flatMap u32le

/-- `rankVector.Write` -/
def writeRank (v : RankVec) : List Nat :=
  u32le v.bits.length ++ bitsToBytes v.bits ++ u32le v.blockSize ++ u32s v.lut

/-- `selectVector.Write` -/
def writeSel (v : SelVec) : List Nat :=
  u32le v.bits.length ++ bitsToBytes v.bits ++ u32le v.numOnes ++ u32s v.lut

/-- `compressPathVector.Write` -/
def writePath (v : PathVec) : List Nat :=
  writeRank v.has ++ u32le (v.offsets.length * 4) ++ u32le v.data.length ++ u32s v.offsets ++ v.data

/-- `builder.Write` -/
def marshal (w : Wire) : List Nat :=
  u32le w.totalKeys ++ u32le w.height ++
  (u32le w.labels.length ++ w.labels) ++
  writeRank w.hasChild ++ writeSel w.louds ++ writePath w.pfx ++ writePath w.sfx ++ u32s w.values

/-- `builder.MarshalSize` -/
def rankSize (v : RankVec) : Nat := 4 + 4 + (numWords v.bits.length * 8 + (v.bits.length / v.blockSize + 1) * 4)
def selSize (v : SelVec) : Nat := 4 + 4 + (numWords v.bits.length * 8 + (v.numOnes / selectSampleInterval + 1) * 4)
def pathSize (v : PathVec) : Nat := rankSize v.has + 8 + v.offsets.length * 4 + v.data.length
def marshalSize (w : Wire) : Nat :=
  4 + 4 + (4 + w.labels.length) + rankSize w.hasChild + selSize w.louds + pathSize w.pfx + pathSize w.sfx +
    w.totalKeys * 4

/-- `rankVector.Unmarshal` -/
def readRank (buf : List Nat) : Option (RankVec × List Nat) :=
  if buf.length < 8 then none else
  match readU32 buf with
  | none => none
  | some (numBits, r1) =>
    match readBits numBits r1 with
    | none => none
    | some (bits, r2) =>
      match readU32 r2 with
      | none => none
      | some (blockSize, r3) =>
        if blockSize == 0 then none else      -- the Go code divides by blockSize
        match readU32s (numBits / blockSize + 1) r3 with
        | none => none
        | some (lut, r4) => some ({ bits := bits, blockSize := blockSize, lut := lut }, r4)

/-- `selectVector.Unmarshal` -/
def readSel (buf : List Nat) : Option (SelVec × List Nat) :=
  if buf.length < 8 then none else
  match readU32 buf with
  | none => none
  | some (numBits, r1) =>
    match readBits numBits r1 with
    | none => none
    | some (bits, r2) =>
      match readU32 r2 with
      | none => none
      | some (numOnes, r3) =>
        match readU32s (numOnes / selectSampleInterval + 1) r3 with
        | none => none
        | some (lut, r4) => some ({ bits := bits, numOnes := numOnes, lut := lut }, r4)

/-- `compressPathVector.Unmarshal` -/
def readPath (buf : List Nat) : Option (PathVec × List Nat) :=
  match readRank buf with
  | none => none
  | some (has, r1) =>
    match readU32 r1 with
    | none => none
    | some (offsetsLen, r2) =>
      match readU32 r2 with
      | none => none
      | some (dataLen, r3) =>
        if r3.length < offsetsLen + dataLen then none else
        match readU32s (offsetsLen / 4) r3 with
        | none => none
        | some (offsets, r4) =>
          match readBytes dataLen r4 with
          | none => none
          | some (data, r5) => some ({ has := has, offsets := offsets, data := data }, r5)

/-- `trie.UnmarshalBinary` -/
def unmarshal (buf : List Nat) : Option Wire :=
  if buf.length ≤ 8 then none else
  match readU32 buf with
  | none => none
  | some (totalKeys, r1) =>
    match readU32 r1 with
    | none => none
    | some (height, r2) =>
      match readU32 r2 with
      | none => none
      | some (numLabels, r3) =>
        match readBytes numLabels r3 with
        | none => none
        | some (labels, r4) =>
          match readRank r4 with
          | none => none
          | some (hasChild, r5) =>
            match readSel r5 with
            | none => none
            | some (louds, r6) =>
              match readPath r6 with
              | none => none
              | some (pfx, r7) =>
                match readPath r7 with
                | none => none
                | some (sfx, r8) =>
                  match readU32s totalKeys r8 with
                  | none => none
                  | some (values, _) =>
                    some { totalKeys := totalKeys, height := height, labels := labels, hasChild := hasChild,
                           louds := louds, pfx := pfx, sfx := sfx, values := values }

/-- the `trie` that `trie.Init(builder)` makes of the encoded vectors -/
def toWire (f : Flat) : Wire :=
  { totalKeys := f.values.length
    height := f.height
    labels := f.labels
    hasChild := { bits := f.hasChild, blockSize := rankSparseBlockSize, lut := f.hasChildLut }
    louds := { bits := f.louds, numOnes := popcount f.louds, lut := f.loudsLut }
    pfx := { has := { bits := f.hasPrefix, blockSize := rankSparseBlockSize, lut := f.hasPrefixLut },
             offsets := pathOffsets 0 f.prefixes, data := pathData f.prefixes }
    sfx := { has := { bits := f.hasSuffix, blockSize := rankSparseBlockSize, lut := f.hasSuffixLut },
             offsets := pathOffsets 0 f.suffixes, data := pathData f.suffixes }
    values := f.values }

end LinVerif.TrieWire
