/-
C18, round 10: the `models.StorageState` helpers the master's handlers are written with
(models/state.go: LeadersOnNode, ReplicasOnNode, DropDatabase, NodeOnline, NodeOffline), branch for
branch, and the handlers `onNodeStartup` / `onNodeFailure` / `onDatabaseCfgDelete` written ON TOP of
these helpers exactly as coordinator/master/state_manager.go does (`step2`). `Master.step` (the
model the earlier theorems speak about) iterates the shard states directly; Lemmas/C18State.lean proves
`step2 = step` on every state whose maps have distinct keys (Go maps), for any number of databases.
Core Lean only.
-/
import LinVerif.Model.Master

namespace LinVerif.Master
open LinVerif LinVerif.Assign

/-- the loop both helpers share:
`for name, inner := range m { for id, v := range inner { if p(v) { result[name] = append(result[name], id) } } }`
— the list of a database is created by the first matching shard (a database without a match has NO
entry), every database gets its own list -/
def collectOnNode {ν : Type} (p : ν → Bool) (m : List (Nat × List (Nat × ν))) : List (Nat × List Nat) :=
  m.foldl (fun res (entry : Nat × List (Nat × ν)) =>
    entry.2.foldl (fun res (kv : Nat × ν) =>
      if p kv.2 then Map.upsert res entry.1 ((Map.lookup res entry.1).getD [] ++ [kv.1]) else res) res) []

/-- `StorageState.LeadersOnNode(nodeID)`: per database the shard ids whose `Leader == nodeID` -/
def leadersOnNode (shards : List (Nat × List (Nat × ShardState))) (id : Nat) : List (Nat × List Nat) :=
  collectOnNode (fun s => decide (s.leader = (id : Int))) shards

/-- `StorageState.ReplicasOnNode(nodeID)`: per database the shard ids whose replica list
`Contain(nodeID)` — iterates `ShardAssignments`, not `ShardStates` -/
def replicasOnNode (asg : List (Nat × Assignment)) (id : Nat) : List (Nat × List Nat) :=
  collectOnNode (fun rs => rs.contains id) asg

/-- `StorageState.NodeOnline(node)`: `LiveNodes[node.ID] = node` -/
def nodeOnline (live : List Nat) (id : Nat) : List Nat := insertLive live id

/-- `StorageState.NodeOffline(nodeID)`: `delete(LiveNodes, nodeID)` -/
def nodeOffline (live : List Nat) (id : Nat) : List Nat := live.filter (· ≠ id)

/-- `StorageState.DropDatabase(name)`: deletes the two entries keyed by exactly `name` -/
def dropDatabase (st : St) (db : Nat) : St :=
  { st with asg := Map.erase st.asg db, shards := Map.erase st.shards db }

/-- `if v, ok := m[k]; ok { m[k] = f(v) }` -/
def adjust {ν : Type} (m : List (Nat × ν)) (k : Nat) (f : ν → ν) : List (Nat × ν) :=
  match Map.lookup m k with
  | some v => Map.upsert m k (f v)
  | none => m

/-- body of the inner loop of `onNodeStartup` for one shard id: a missing entry reads as the zero
value and is stored back -/
def startupShard (id : Nat) (ss : List (Nat × ShardState)) (sid : Nat) : List (Nat × ShardState) :=
  let s := (Map.lookup ss sid).getD ShardState.zero
  let s' := if s.state ≠ stOnline then { s with state := stOnline, leader := (id : Int) } else s
  Map.upsert ss sid s'

/-- `stateManager.onNodeStartup(state, node)`: over `ReplicasOnNode(node.ID)`; databases without
shard states are skipped (`if shardStates, ok := state.ShardStates[db]; ok`) -/
def onNodeStartup (asg : List (Nat × Assignment)) (shards : List (Nat × List (Nat × ShardState)))
    (id : Nat) : List (Nat × List (Nat × ShardState)) :=
  (replicasOnNode asg id).foldl (fun sh (e : Nat × List Nat) =>
    adjust sh e.1 (fun ss => e.2.foldl (startupShard id) ss)) shards

/-- body of the inner loop of `onNodeFailure` for one shard id -/
def failureShard (a : Assignment) (live : List Nat) (ss : List (Nat × ShardState)) (sid : Nat) :
    List (Nat × ShardState) :=
  let s := (Map.lookup ss sid).getD ShardState.zero
  Map.upsert ss sid (elected ((Map.lookup a sid).getD []) live s)

/-- `stateManager.onNodeFailure(state, nodeID)`: over `LeadersOnNode(nodeID)`, taken BEFORE the loop;
`live` is `state.LiveNodes` after `NodeOffline` -/
def onNodeFailure (asg : List (Nat × Assignment)) (shards : List (Nat × List (Nat × ShardState)))
    (live : List Nat) (id : Nat) : List (Nat × List (Nat × ShardState)) :=
  (leadersOnNode shards id).foldl (fun sh (e : Nat × List Nat) =>
    adjust sh e.1 (fun ss => e.2.foldl (failureShard ((Map.lookup asg e.1).getD []) live) ss)) shards

/-- `processEvent` written with the helpers, as the Go handlers are -/
def step2 (st : St) : Event → St
  | .nodeUp id =>
    let live := nodeOnline st.live id
    { st with live := live, shards := onNodeStartup st.asg st.shards id }
  | .nodeDown id =>
    let live := nodeOffline st.live id
    { st with live := live, shards := onNodeFailure st.asg st.shards live id }
  | .assignChanged db a =>
    { st with asg := Map.upsert st.asg db a, shards := Map.upsert st.shards db (initShardStates a st.live) }
  | .dbCfg db => { st with dbs := if st.dbs.contains db then st.dbs else st.dbs ++ [db] }
  | .dropDb db =>
    if st.dbs.contains db then
      { dropDatabase st db with dbs := st.dbs.filter (· ≠ db) }
    else st

def run2 (st : St) (es : List Event) : St := es.foldl step2 st

/-- the broker-side consumer of the published state (`coordinator/broker` stateManager.GetQueryableReplicas):
every ONLINE shard of the database is sent to `liveNodes[shardState.Leader]` — a map read that yields the
zero node when the leader is not a key of the published live nodes (`none` here) -/
def queryTargets (st : St) (db : Nat) : Option (List (Nat × Option Nat)) :=
  (Map.lookup st.shards db).map (fun ss =>
    (ss.filter (fun e => e.2.state = stOnline)).map (fun e =>
      (e.1, if 0 ≤ e.2.leader ∧ st.live.contains e.2.leader.toNat then some e.2.leader.toNat else none)))

/-! Variants that are NOT the code: what two realistic slips would compute (kept to show that the
theorems distinguish them — see the `example`s in Props/C18.lean). -/

/-- LeadersOnNode with ONE scratch slice reused for every database (`buf = buf[:0]` per database, the
slice stored in the result without a copy): all lists share one backing array, so after the loop the
list of a database reads, position by position, what the LAST database that wrote that position
left there. `lists` = the correct per-database lists in visiting order. -/
def aliasedLists (lists : List (Nat × List Nat)) : List (Nat × List Nat) :=
  let final : List Nat := lists.foldl (fun buf e => e.2 ++ buf.drop e.2.length) []
  lists.map (fun e => (e.1, final.take e.2.length))

/-- initializeShardState with an early return while no node is known: the assignment is stored,
no shard state is built -/
def initShardStatesFast (a : Assignment) (live : List Nat) : Option (List (Nat × ShardState)) :=
  if live.isEmpty then none else some (initShardStates a live)

end LinVerif.Master
