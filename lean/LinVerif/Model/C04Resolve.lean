/-
C04 — which target OBJECT a rollup run writes into (round 10).

`family.rollup()` (kv/family_rollup.go) resolves the target of every interval on EVERY run, inside the
loop over `rollupMap`:

    targetStore, ok := GetStoreManager().GetStoreByName(<base>/<interval type>/<segment of the family start>)
    if !ok { continue }                                   // "skip rollup because cannot get target store"
    targetFamily, err := targetStore.CreateFamily(<family of the family start>, f.option)
    rollup := newRollup(sourceInterval, targetInterval, familyStartTime, fSTime)
    targetFamily.doRollupWork(f, rollup, files)

A target store does not live as long as a source family object: `StoreManager.CloseStore` (segment
eviction, `shard.EvictSegment`) unregisters it and closes its manifest, the next `CreateStore` of the same
name makes a NEW store object with new family objects. The old objects stay reachable in memory but are
dead: a commit through them fails ("file already closed"); since fix f4ef1f5 a failed target commit makes
the job fail and `rollup()` `continue`s (the rollup marks stay).

The model: a registry `reg` (store name ↦ generation of the registered object), the bookkeeping `St` of
Model/Rollup.lean (it is what the manifests hold, so it does not depend on object identity), and — for the
second shape only — a cache of resolved targets inside the source family objects
(`family.rollupTargets`, seeded change c04-18). `cached = false` is the code.
-/
import LinVerif.Model.Rollup

namespace LinVerif.Rollup

/-- a target store name: (target interval, segment time). The option accepts at most one interval per
interval type, so (interval, segment) ≅ `<base>/<type>/<segment name>`. -/
abbrev TName := Iv × Int

/-- a store object: name + generation (which `CreateStore` made it) -/
abbrev TObj := TName × Nat

structure World where
  /-- what the manifests hold -/
  st : St := St.init
  /-- `storeManager.stores`: registered target stores with the generation of the registered object -/
  reg : List TObj := []
  /-- generations handed out so far -/
  gen : Nat := 0
  /-- (second shape only) `family.rollupTargets` of the living source family objects:
  (source family, interval) ↦ resolved target object -/
  cache : List ((Nat × Iv) × TObj) := []
  deriving Repr

/-- `GetStoreByName` -/
def World.lookup (w : World) (n : TName) : Option TObj := w.reg.find? (fun o => o.1 = n)

/-- the object is the one registered under its name (its manifest is open) -/
def World.live (w : World) (o : TObj) : Bool := w.lookup o.1 == some o

/-- the resolution of the target of (source family `fam`, interval `i`) in one run. `nameOf` = the locating
lines (`GetSegment(familyStartTime)`). `cached = false`: lookup in the registry (the code).
`cached = true`: the object resolved by an earlier run of this source family object, if any. -/
def World.resolve (cached : Bool) (nameOf : Nat → Iv → TName) (w : World) (fam : Nat) (i : Iv) : Option TObj :=
  if cached then
    match w.cache.find? (fun e => e.1 = (fam, i)) with
    | some e => some e.2
    | none => w.lookup (nameOf fam i)
  else w.lookup (nameOf fam i)

/-- is the job of interval `i` able to commit: a target was resolved and it is a live object -/
def World.canCommit (cached : Bool) (nameOf : Nat → Iv → TName) (w : World) (fam : Nat) (i : Iv) : Bool :=
  match w.resolve cached nameOf fam i with
  | some o => w.live o
  | none => false

/-- what a run leaves in the cache (second shape): every processed interval whose target was resolved -/
def World.fillCache (cached : Bool) (nameOf : Nat → Iv → TName) (w : World) (fam : Nat) (ivs : List Iv) :
    List ((Nat × Iv) × TObj) :=
  if cached then
    ivs.foldl (fun c i =>
      match c.find? (fun e => e.1 = (fam, i)) with
      | some _ => c
      | none => match w.lookup (nameOf fam i) with
        | some o => c ++ [((fam, i), o)]
        | none => c) w.cache
  else w.cache

/-- operations of the histories with a store registry -/
inductive WOp where
  | flush (fam file : Nat) (nonEmpty : Bool) (ivs : List Iv)
  /-- `CreateStore(name)`: the registered object if there is one, else a new object; its manifest is
  replayed (`perm` = emission order of the snapshot the previous open wrote) -/
  | topen (n : TName) (perm : List SLog → List SLog)
  /-- `CloseStore(name)` -/
  | tclose (n : TName)
  /-- one run of `rollup()` of the living object of source family `fam`; `ok` = intervals whose job does
  not fail for another reason (I/O) in this attempt; `cut = some k`: the process dies after `k` records -/
  | rollup (fam : Nat) (ivs ok dvs : List Iv) (cut : Option Nat)
  /-- close + open of everything (restart of the process): every object is new -/
  | restart (perm : List SLog → List SLog)

/-- re-encoding of the target families' references by a manifest snapshot + replay (the source families'
rollup marks are not touched: their stores stay open) -/
def St.reopenTargets (own : Iv → Nat) (perm : List SLog → List SLog) (σ : St) : St :=
  { σ with refs := (restore (perm (snapshotLogs true own { σ with pending := [] }))).2 }

/-- every registered store gets a new object, the source family objects (and their caches) are gone -/
def World.renew (w : World) : World :=
  { w with reg := (w.reg.zipIdx).map (fun (o, k) => (o.1, w.gen + k)), gen := w.gen + w.reg.length, cache := [] }

def World.step (cached : Bool) (nameOf : Nat → Iv → TName) (own : Iv → Nat) (w : World) : WOp → World
  | .flush fam file ne ivs => { w with st := w.st.step (.flush fam file ne ivs) }
  | .topen n perm =>
    match w.lookup n with
    | some _ => w
    | none => { w with reg := w.reg ++ [(n, w.gen)], gen := w.gen + 1, st := w.st.reopenTargets own perm }
  | .tclose n => { w with reg := w.reg.filter (fun o => o.1 ≠ n) }
  | .rollup fam ivs ok dvs cut =>
    let av := ivs.filter (fun i => decide (i ∈ ok) && w.canCommit cached nameOf fam i)
    let w1 := { w with st := w.st.step (.rollup fam ivs av dvs cut), cache := w.fillCache cached nameOf fam ivs }
    match cut with
    | none => w1
    | some _ => w1.renew
  | .restart perm => { w.renew with st := w.st.restart true own perm }

def World.run (cached : Bool) (nameOf : Nat → Iv → TName) (own : Iv → Nat) (w : World) (ops : List WOp) : World :=
  ops.foldl (World.step cached nameOf own) w

/-- the history of `HOp`s a world history amounts to on the bookkeeping, for the code's shape (per-run
lookup): a rollup is available exactly for the intervals whose target store is REGISTERED at that moment -/
def World.trace (nameOf : Nat → Iv → TName) (own : Iv → Nat) : World → List WOp → List HOp
  | _, [] => []
  | w, o :: rest =>
    let w' := w.step false nameOf own o
    (match o with
      | .flush fam file ne ivs => [HOp.op (.flush fam file ne ivs)]
      | .topen n perm =>
        (match w.lookup n with
         | some _ => []
         | none => [HOp.op (.reopen w.st.pending (w.st.reopenTargets own perm).refs)])
      | .tclose _ => []
      | .rollup fam ivs ok dvs cut =>
        [HOp.op (.rollup fam ivs
          (ivs.filter (fun i => decide (i ∈ ok) && (w.lookup (nameOf fam i)).isSome)) dvs cut)]
      | .restart perm => [HOp.restart perm]) ++ World.trace nameOf own w' rest

end LinVerif.Rollup
