/-
C03 — opening the inputs of a merge compaction under I/O faults (core Lean only).

Go anchors: kv/compact_job.go `doMerge` (order: `newMerger(newCompactFlusher())` — opens output
file 0 —, then `makeInputIterator`, then the grouping loop), `makeInputIterator` (for `which` in
0,1: for every picked file `snapshot.GetReader(fileNumber)`; on an error `return nil, err`),
`mergeCompaction` (`doMerge` error ⇒ return, nothing installed), `installCompactionResults`
(`MarkInputDeletes` marks ALL picked inputs of both levels, whatever was opened),
kv/table/cache.go `GetReader` (cache miss ⇒ `newMMapStoreReaderFunc(path, fileName)`).

A fault placement says, per picked input (position in `levelInputs ++ levelUpInputs`), how the open
ends. What the error branch of `makeInputIterator` does with a failed open is the parameter `abort`
(the current source aborts on every error: regenerated fact `openErrorAborts`); a variant that skips
the input (`abort r = false`) still deletes every picked input in the install step — that is the
point of the model.
-/
import LinVerif.Model.Compact

namespace LinVerif.C03Inputs
open LinVerif.Map LinVerif.MetricBlock LinVerif.Merge LinVerif.Compact

variable {V : Type}

/-- how `snapshot.GetReader` → `storeCache.GetReader` ends for one input -/
inductive OpenRes
  | ok        -- cache hit, or the file was opened and mapped
  | notExist  -- `os.Open`: ENOENT (file moved away / not yet visible)
  | ioError   -- any other error (EMFILE, ENOMEM, mmap failure, unreadable footer)
  deriving DecidableEq, Repr

/-- the policy of the current source: every failed open aborts the job -/
def abortAll : OpenRes → Bool := fun _ => true

/-- a policy that logs and continues (for every error / for ENOENT only) -/
def skipAll : OpenRes → Bool := fun _ => false
def skipNotExist : OpenRes → Bool := fun r => r != .notExist

/-- the policy the regenerated flag `openErrorAborts` stands for (`false`: some failed open is skipped — the
driver then predicts the skip for every failed open) -/
def policyOf (aborts : Bool) : OpenRes → Bool := if aborts then abortAll else skipAll

/-- `makeInputIterator`: the picked files in order (`which = 0`, then `which = 1`); `i` is the position
of the next file. `none` = `return nil, err`; a skipped file contributes no iterator. -/
def openLoop (abort : OpenRes → Bool) (pl : Nat → OpenRes) : Nat → List (File V) → Option (List (File V))
  | _, [] => some []
  | i, f :: rest =>
    match pl i with
    | .ok => (openLoop abort pl (i + 1) rest).map (fun l => f :: l)
    | r => if abort r then none else openLoop abort pl (i + 1) rest

/-- `compactJob.Run` with a fault placement on the input opens. The trivial move opens nothing.
`doMerge`: output file 0 is created first (`failAt = some 0` fails before any input is opened), then the
inputs are opened, then the merge runs over the OPENED inputs; the install deletes ALL picked inputs
(`st.l0` and `pickUp`) and adds the outputs. -/
def compactF (agg : FieldType → V → V → V) (abort : OpenRes → Bool) (pl : Nat → OpenRes)
    (p : Params V) (st : Family V) : Family V × Outcome :=
  if st.l0.length < p.threshold then (st, .skipped)
  else
    let up := pickUp st.l0 st.l1
    let rest := restUp st.l0 st.l1
    if st.l0.length = 1 ∧ up.isEmpty then
      ({ l0 := [], l1 := st.l1 ++ st.l0 }, .moved)
    else if p.failAt = some 0 then (st, .crashed)
    else
      match openLoop abort pl 0 (st.l0 ++ up) with
      | none => (st, .crashed)
      | some opened =>
        if jobFails agg p opened then (st, .crashed)
        else
          ({ l0 := [], l1 := rest ++
              (splitLoop p.size p.maxFileSize (mergedEntries agg p opened) [] 0).filterMap mkFile }, .merged)

/-- no fault anywhere -/
def noFault : Nat → OpenRes := fun _ => .ok

/-- one failing open at position `k` -/
def faultAt (k : Nat) (r : OpenRes) : Nat → OpenRes := fun i => if i = k then r else .ok

/-! ### histories with fault placements -/

inductive OpF (V : Type)
  | flush (es : List (Nat × Block V))
  | compact (p : Params V) (pl : Nat → OpenRes)

def stepF (agg : FieldType → V → V → V) (abort : OpenRes → Bool) (st : Family V) : OpF V → Family V
  | .flush es => flush st es
  | .compact p pl => (compactF agg abort pl p st).1

def runF (agg : FieldType → V → V → V) (abort : OpenRes → Bool) (st : Family V) (ops : List (OpF V)) : Family V :=
  ops.foldl (stepF agg abort) st

/-- the fault-free reading of a history -/
def OpF.plain : OpF V → Op V
  | .flush es => .flush es
  | .compact p _ => .compact p

end LinVerif.C03Inputs
