/-
`workerPool.Submit` with a context that is already done while the tasks queue has room (property
C19, round 9), core Lean only.

  internal/concurrent/pool.go   Submit: `select { case <-ctx.Done(): p.reject(task, ctx.Err()); return
                                                  case p.tasks <- task: }`

Both cases are ready, Go picks one at random: the task is rejected (its handler — the stage's
`errHandle` — completes the stage with the context's error) or queued and executed as if nothing had
happened. This is what every pooled stage of a leaf pipeline meets once the request's deadline has
passed while earlier stages were still running. The outcome is a SET: a stage tree with `either`
stages stands for all its resolutions; the theorems are proved for every resolution, the harness
reports which one the real `select` took (token `R` accepted / `r` rejected) and requires exactly one
completion whichever it was.
-/
import LinVerif.Model.Pipeline

namespace LinVerif.Pipeline

/-- how a stage is run, with the undetermined case -/
inductive PRun where
  | fixed (r : Run)
  | either    -- pooled, `Submit` with a done context and free queue capacity: `pooled` or `rejected`
  deriving DecidableEq, Repr, Inhabited

inductive PStage where
  | mk (run : PRun) (planPanics : Bool) (out : Outcome) (children : List PStage)
  deriving Repr, Inhabited

/-- the runs `Submit`'s select allows -/
def PRun.choices : PRun → List Run
  | .fixed r => [r]
  | .either => [.pooled, .rejected]

mutual
/-- every stage tree the random choices can produce -/
def PStage.resolutions : PStage → List Stage
  | .mk r pp o cs =>
    r.choices.flatMap fun r' => (resolutionsL cs).map fun cs' => Stage.mk r' pp o cs'
def resolutionsL : List PStage → List (List Stage)
  | [] => [[]]
  | c :: cs => c.resolutions.flatMap fun c' => (resolutionsL cs).map fun cs' => c' :: cs'
end

mutual
/-- the resolution in which every select takes the queue (`true`) / the context (`false`) -/
def PStage.resolveAll (accept : Bool) : PStage → Stage
  | .mk r pp o cs =>
    Stage.mk (match r with | .fixed r => r | .either => if accept then .pooled else .rejected) pp o
      (resolveAllL accept cs)
def resolveAllL (accept : Bool) : List PStage → List Stage
  | [] => []
  | c :: cs => c.resolveAll accept :: resolveAllL accept cs
end

end LinVerif.Pipeline
