/-
The interval calculators of pkg/timeutil under an arbitrary `time.Local` (core Lean only).

`pkg/timeutil` converts with `time.Unix(ts/1000, 0)` (instant → wall clock of `time.Local`) and
`time.Date(y, m, d, 0,0,0,0, time.Local)` (wall clock → instant). A zone is modelled by the two
offset lookups Go performs: `offUTC s` = offset (seconds east of UTC) in effect at the UTC second
`s`, `offLocal w` = offset `time.Date` resolves for the wall-clock second `w` (seconds since
1970-01-01T00:00:00 on the wall clock). For a fixed-offset zone both are constant.

`Model/Interval.lean` is the instance `Zone.fixed 0` (`utc_*` lemmas in `Lemmas/C13Zone.lean`).
-/
import LinVerif.Model.Interval

namespace LinVerif.Interval
open LinVerif.Calendar

structure Zone where
  /-- offset in seconds at a UTC second -/
  offUTC : Int → Int
  /-- offset in seconds `time.Date` picks for a wall-clock second -/
  offLocal : Int → Int

/-- a fixed-offset zone (`time.FixedZone`, `Etc/GMT-8`, …) -/
def Zone.fixed (off : Int) : Zone := { offUTC := fun _ => off, offLocal := fun _ => off }

/-- `t := time.Unix(timestamp/1000, 0)` in the zone; `(t.Year(), t.Month(), t.Day())` -/
def civilOfMsZ (z : Zone) (t : Int) : Int × Int × Int :=
  let s := Int.tdiv t 1000
  civilFromDays ((s + z.offUTC s) / 86400)

/-- `time.Date(y, m, d, 0, 0, 0, 0, time.Local).UnixNano() / 1000000` in the zone -/
def dateMsZ (z : Zone) (y m d : Int) : Int :=
  let w := dateDays y m d * 86400
  (w - z.offLocal w) * 1000

def calcSegmentTimeZ (z : Zone) : Calc → Int → Int
  | .day, t => let c := civilOfMsZ z t; dateMsZ z c.1 c.2.1 c.2.2
  | .month, t => let c := civilOfMsZ z t; dateMsZ z c.1 c.2.1 1
  | .year, t => let c := civilOfMsZ z t; dateMsZ z c.1 1 1

def calcFamilyZ (z : Zone) : Calc → Int → Int → Int
  | .day, t, seg => Int.tdiv (t - seg) oneHour
  | .month, t, _ => (civilOfMsZ z t).2.2
  | .year, t, _ => (civilOfMsZ z t).2.1

def calcFamilyStartTimeZ (z : Zone) : Calc → Int → Int → Int
  | .day, seg, f => seg + f * oneHour
  | .month, seg, f => let c := civilOfMsZ z seg; dateMsZ z c.1 c.2.1 f
  | .year, seg, f => let c := civilOfMsZ z seg; dateMsZ z c.1 f 1

def calcFamilyEndTimeZ (z : Zone) : Calc → Int → Int
  | .day, s => s + oneHour - 1
  | .month, s => let c := civilOfMsZ z s; dateMsZ z c.1 c.2.1 (c.2.2 + 1) - 1
  | .year, s => let c := civilOfMsZ z s; dateMsZ z c.1 (c.2.1 + 1) 1 - 1

def calcFamilyTimeZ (z : Zone) (c : Calc) (t : Int) : Int :=
  let segmentTime := calcSegmentTimeZ z c t
  let family := calcFamilyZ z c t segmentTime
  calcFamilyStartTimeZ z c segmentTime family

/-- `GetSegment` in the zone -/
def segmentNameZ (z : Zone) (c : Calc) (t : Int) : String :=
  let d := civilOfMsZ z t
  match c with
  | .day => pad 4 d.1 ++ pad 2 d.2.1 ++ pad 2 d.2.2
  | .month => pad 4 d.1 ++ pad 2 d.2.1
  | .year => pad 4 d.1

/-- a zone given by its initial offset and its transitions `(UTC second, new offset)` in ascending
order. `offLocal` is `time.Date`'s resolution: look the wall-clock second up as if it were UTC; if the
instant obtained with that offset lies in another period of the zone, use the offset in force at that
instant instead. -/
def Zone.ofTransitions (off0 : Int) (trs : List (Int × Int)) : Zone :=
  let offAt : Int → Int := fun s => trs.foldl (fun acc p => if p.1 ≤ s then p.2 else acc) off0
  let period : Int → Nat := fun s => (trs.filter (fun p => p.1 ≤ s)).length
  { offUTC := offAt
    offLocal := fun w =>
      let o1 := offAt w
      let u := w - o1
      if period u = period w then o1 else offAt u }

/-- a zone with one transition: offset `before` until the UTC second `at` (exclusive), `after` from
then on; `time.Date` resolves a wall-clock second with the offset of the side it falls on (the
wall-clock seconds used here are midnights away from the transition hour) -/
def Zone.oneTransition (before after at_ : Int) : Zone :=
  { offUTC := fun s => if s < at_ then before else after
    offLocal := fun w => if w - before < at_ then before else after }

/-- America/New_York around 2024-11-03: EDT (−4 h) until 06:00:00Z, then EST (−5 h) -/
def Zone.newYorkFall2024 : Zone := Zone.oneTransition (-14400) (-18000) 1730613600

/-- Australia/Lord_Howe around 2024-04-07: LHDT (+11 h) until 15:00:00Z Apr 6, then LHST (+10:30) -/
def Zone.lordHoweApr2024 : Zone := Zone.ofTransitions 39600 [(1712415600, 37800)]

/-- `timeRangeOfTimestamp` / `segment.initDataFamily`'s range in the zone -/
def timeRangeOfTimestampZ (z : Zone) (c : Calc) (t : Int) : TimeRange :=
  { start := calcFamilyTimeZ z c t, stop := calcFamilyEndTimeZ z c (calcFamilyTimeZ z c t) }

/-- `intervalSegment.GetDataFamilies(q)` → `segment.GetDataFamilies` (current code: the query range
is truncated with `CalcFamilyTime`) with `time.Local` = the zone; same shape as `getDataFamilies` -/
def getDataFamiliesZ (z : Zone) (c : Calc) (q : TimeRange) (ts : List Int) : List Int :=
  let segQ : TimeRange := { start := calcSegmentTimeZ z c q.start, stop := q.stop }
  let fq := segQ.intersect q
  (ts.filter fun t =>
      segQ.contains (calcSegmentTimeZ z c t) &&
        (TimeRange.mk (calcFamilyTimeZ z c fq.start) (calcFamilyTimeZ z c fq.stop)).overlap
          (timeRangeOfTimestampZ z c t)).map
    fun t => calcFamilyTimeZ z c t

end LinVerif.Interval
