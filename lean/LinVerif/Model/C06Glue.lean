/-
The replicator's view of a consumer group (core Lean only): replica/replicator.go translates between
"indexes" (the NEXT sequence to replicate / append, the LAST one acknowledged) and the positions of
pkg/queue. Every def is one method of `replicator`; the bodies are regenerated from source and tied in
`Props.C06.replicator_glue_tie` (an off-by-one in any of them breaks that obligation by name).

  ReplicaIndex()            ConsumerGroup.ConsumedSeq() + 1
  AckIndex()                ConsumerGroup.AcknowledgedSeq()
  AppendIndex()             Queue().Queue().AppendedSeq() + 1
  ResetReplicaIndex(idx)    ConsumerGroup.SetConsumedSeq(idx - 1)           (the rewind / re-consume)
  ResetAppendIndex(idx)     Queue().SetAppendedSeq(idx - 1)                 (explicit index reset)
  SetAckIndex(idx)          ConsumerGroup.Ack(idx)
  IgnoreMessage(idx)        if AckIndex()+1 == idx { SetAckIndex(idx) }
  NewLocalReplicator        ... ResetReplicaIndex(AckIndex() + 1)           ("replay wal log")
  partition.ResetReplicaIndex(idx)   log.SetAppendedSeq(idx - 1)
-/
import LinVerif.Model.FanOut

namespace LinVerif.FanOut.Glue
open LinVerif.FanOut LinVerif.Map

def replicaIndex (grp : Group) : Int := grp.consumed + 1
def ackIndex (grp : Group) : Int := grp.ack
def appendIndex (q : Queue) : Int := q.appended + 1

def resetReplicaIndex (g : Nat) (idx : Int) : Op := .setConsumed g (idx - 1)
def resetAppendIndex (idx : Int) : Op := .setAppended (idx - 1)
def setAckIndex (g : Nat) (idx : Int) : Op := .ack g idx

/-- `IgnoreMessage`: the operations it issues in state `s` -/
def ignoreMessage (s : State) (g : Nat) (idx : Int) : List Op :=
  match lookup s.live g with
  | some grp => if ackIndex grp + 1 = idx then [setAckIndex g idx] else []
  | none => []

/-- the start of a local replicator: `lr.ResetReplicaIndex(lr.AckIndex() + 1)` -/
def localStart (s : State) (g : Nat) : List Op :=
  match lookup s.live g with
  | some grp => [resetReplicaIndex g (ackIndex grp + 1)]
  | none => []

/-- the position part of `remoteReplicator.IsReady` (replica/replicator_remote.go) once the follower has
answered its last acknowledged index `rAck` (`remoteLastReplicaAckIdx`); the skeleton of the source —
assignments, conditions, calls, which branches return — is the regenerated fact `remoteHandshake`:
  next := rAck + 1;  next == ReplicaIndex()            ⇒ nothing
  rAck < AckIndex()                                    ⇒ (follower reset over the wire) ResetReplicaIndex(AckIndex()+1); return
  next > AppendIndex()  ⇒ ResetAppendIndex(next)       (explicit index reset: the leader lost WAL data)
  ResetReplicaIndex(next); SetAckIndex(rAck) -/
def handshakeOps (s : State) (g : Nat) (rAck : Int) : List Op :=
  match lookup s.live g with
  | none => []
  | some grp =>
    if rAck + 1 = replicaIndex grp then []
    else if rAck < ackIndex grp then [resetReplicaIndex g (ackIndex grp + 1)]
    else (if rAck + 1 > appendIndex s.q then [resetAppendIndex (rAck + 1)] else []) ++
      [resetReplicaIndex g (rAck + 1), setAckIndex g rAck]

/-- the answers of `k` successful Consume calls starting at sequence `a` -/
def seqFrom (a : Int) : Nat → List Res
  | 0 => []
  | k + 1 => .val a :: seqFrom (a + 1) k

end LinVerif.FanOut.Glue
