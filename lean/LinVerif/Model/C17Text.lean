/-
C17, round 12 — which JSON codec every declaration of sql/stmt (and timeutil/interval.go) uses,
resolved down to the jsoniter configuration and from there to the FLOAT WRITER that prints
`NumberLiteral.Val` (the only float64 on the wire).

Go anchors: sql/stmt/{expr,query,metric_metadata}.go (`encoding.JSONMarshal/JSONUnmarshal`),
pkg/timeutil/interval.go (`jsoniter.Marshal` / `jsoniter.Unmarshal`),
github.com/lindb/common/pkg/encoding/json.go (`json = jsoniter.ConfigCompatibleWithStandardLibrary`),
github.com/json-iterator/go config.go (`Config{...}.Froze()` literals; `if cfg.MarshalFloatWith6Digits
{ api.marshalFloatWith6Digits(...) }` installs `lossyFloat64Encoder` = `WriteFloat64Lossy`),
adapter.go (package-level `Marshal` = `ConfigDefault.Marshal`), stream_float.go.
Core Lean only.
-/
import LinVerif.Model.Json

namespace LinVerif.C17Text
open LinVerif.Json

/-- the two float64 writers of jsoniter: `WriteFloat64` (strconv's shortest text that parses back
to the same float64) and `WriteFloat64Lossy` (at most 6 fractional digits below 0x4ffffff) -/
inductive FloatWriter where
  | shortest
  | sixDigits
  deriving DecidableEq, Repr

def lookup {α : Type} (k : String) : List (String × α) → Option α
  | [] => none
  | (k', v) :: rest => if k' = k then some v else lookup k rest

/-- what one `pkg.Name` used in sql/stmt stands for -/
inductive Resolved where
  | config (name : String)   -- an encoder / decoder entry point of this jsoniter configuration
  | rawType                  -- `json.RawMessage`: a type, bytes spliced as they are
  | unknown                  -- anything else: not understood, every theorem below fails on it
  deriving DecidableEq, Repr

/-- the part of `a.b` before / after the first dot -/
def beforeDotL : List Char → List Char
  | [] => []
  | c :: cs => if c = '.' then [] else c :: beforeDotL cs
def afterDotL : List Char → List Char
  | [] => []
  | c :: cs => if c = '.' then cs else afterDotL cs
def beforeDot (s : String) : String := String.ofList (beforeDotL s.toList)
def afterDot (s : String) : String := String.ofList (afterDotL s.toList)
def isConfigName (s : String) : Bool := "Config".toList.isPrefixOf s.toList

/-- resolve `pkg.Name` through lindb/common's encoding package (`common`: its codec variable and
the calls of JSONMarshal / JSONUnmarshal) and jsoniter's package-level entry points (`entries`) -/
def resolve (common entries : List (String × String)) (use : String) : Resolved :=
  if use = "json.RawMessage" then .rawType
  else if beforeDot use = "encoding" then
    match lookup (afterDot use) common with          -- e.g. "json.Marshal"
    | some call =>
      match lookup ("var " ++ beforeDot call) common with   -- e.g. "jsoniter.ConfigCompatible…"
      | some v => if beforeDot v = "jsoniter" then .config (afterDot v) else .unknown
      | none => .unknown
    | none => .unknown
  else if beforeDot use = "jsoniter" then
    match lookup (afterDot use) entries with          -- e.g. "ConfigDefault.Marshal"
    | some call => .config (beforeDot call)
    | none => if isConfigName (afterDot use) then .config (afterDot use) else .unknown
  else .unknown

/-- `Froze()`: the 6-digit encoder is installed exactly when the literal sets the flag -/
def floatWriterOf (cfgs : List (String × List String)) (name : String) : Option FloatWriter :=
  match lookup name cfgs with
  | none => none
  | some flags => if flags.contains "MarshalFloatWith6Digits=true" then some .sixDigits else some .shortest

/-- the writer behind one use; `rawType` writes no float at all -/
def writerOfUse (common entries : List (String × String)) (cfgs : List (String × List String))
    (use : String) : Option FloatWriter :=
  match resolve common entries use with
  | .config n => floatWriterOf cfgs n
  | .rawType => some .shortest
  | .unknown => none

/-! ### the expected tables (tied to the regenerated facts in Props/C17Text.lean) -/

def codecImportTable : List (String × String) := [
  ("expr.go", "json=encoding/json"),
  ("expr.go", "encoding=github.com/lindb/common/pkg/encoding"),
  ("metric_metadata.go", "json=encoding/json"),
  ("metric_metadata.go", "encoding=github.com/lindb/common/pkg/encoding"),
  ("query.go", "json=encoding/json"),
  ("query.go", "encoding=github.com/lindb/common/pkg/encoding"),
  ("timeutil/interval.go", "jsoniter=github.com/json-iterator/go")]

def codecUseTable : List (String × String) := [
  ("expr.go:type exprData", "json.RawMessage"),
  ("expr.go:type innerCallExpr", "json.RawMessage"),
  ("expr.go:type innerBinaryExpr", "json.RawMessage"),
  ("expr.go:Marshal", "encoding.JSONMarshal"),
  ("expr.go:Unmarshal", "encoding.JSONUnmarshal"),
  ("expr.go:unmarshalCall", "encoding.JSONUnmarshal"),
  ("expr.go:unmarshalSelectItem", "encoding.JSONUnmarshal"),
  ("expr.go:unmarshalOrderByExpr", "encoding.JSONUnmarshal"),
  ("expr.go:unmarshalBinary", "encoding.JSONUnmarshal"),
  ("expr.go:unmarshal", "encoding.JSONUnmarshal"),
  ("metric_metadata.go:type innerMetadata", "json.RawMessage"),
  ("metric_metadata.go:MetricMetadata.MarshalJSON", "encoding.JSONMarshal"),
  ("metric_metadata.go:MetricMetadata.UnmarshalJSON", "encoding.JSONUnmarshal"),
  ("query.go:type innerQuery", "json.RawMessage"),
  ("query.go:Query.MarshalJSON", "encoding.JSONMarshal"),
  ("query.go:Query.UnmarshalJSON", "encoding.JSONUnmarshal"),
  ("timeutil/interval.go:var unmarshalFn", "jsoniter.Unmarshal"),
  ("timeutil/interval.go:Interval.MarshalJSON", "jsoniter.Marshal")]

def commonEncodingTable : List (String × String) :=
  [("var json", "jsoniter.ConfigCompatibleWithStandardLibrary"), ("JSONMarshal", "json.Marshal"),
   ("JSONUnmarshal", "json.Unmarshal")]

def jsoniterConfigTable : List (String × List String) :=
  [("ConfigDefault", ["EscapeHTML=true"]),
   ("ConfigCompatibleWithStandardLibrary", ["EscapeHTML=true", "SortMapKeys=true", "ValidateJsonRawMessage=true"]),
   ("ConfigFastest", ["EscapeHTML=false", "MarshalFloatWith6Digits=true", "ObjectFieldMustBeSimpleString=true"])]

def jsoniterEntryTable : List (String × String) :=
  [("Marshal", "ConfigDefault.Marshal"), ("Unmarshal", "ConfigDefault.Unmarshal"),
   ("MarshalToString", "ConfigDefault.MarshalToString"),
   ("UnmarshalFromString", "ConfigDefault.UnmarshalFromString")]

def lossyGuardText : String :=
  "cfg.MarshalFloatWith6Digits => api.marshalFloatWith6Digits(encoderExtension)"

def lossyWriterTable : List String :=
  ["if math.IsInf(val, 0) || math.IsNaN(val)", "if val < 0", "if val > 0x4ffffff", "precision := 6",
   "exp := uint64(1000000)", "lval := uint64(val*float64(exp) + 0.5)", "fval := lval % exp", "if fval == 0"]

/-! ### the number text layer as a parameter

`shortest` / `parse` are strconv's pair (hypothesis: the shortest text parses back to the same
bits, for every finite value); `six` is the 6-digit writer, about which only ONE fact is assumed:
it prints two different finite values alike (0.0000001 = 0x3E7AD7F29ABCAF48 and 0 both as `0`:
`lval = uint64(val*1000000 + 0.5) = 0`; constants pinned by `tie_jsoniterLossyWriter`). -/
structure NumText where
  shortest : F64 → List Char
  six : F64 → List Char
  parse : List Char → Option F64
  parse_shortest : ∀ v : F64, v.isFinite = true → parse (shortest v) = some v
  a : F64
  b : F64
  a_finite : a.isFinite = true
  b_finite : b.isFinite = true
  a_ne_b : a ≠ b
  six_collapse : six a = six b

def NumText.write (T : NumText) : FloatWriter → F64 → List Char
  | .shortest => T.shortest
  | .sixDigits => T.six

end LinVerif.C17Text
