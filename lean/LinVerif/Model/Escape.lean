/-
C16 — the escaping of the influx line protocol as ingestion/influx/parser.go defines it (core Lean only).

  * `escape ds`            what a conformant client writes: a backslash before every delimiter character
  * `unescapeOne c`        bytes.ReplaceAll(in, `\c`, `c`)  (one pass of unescapeTag / unescapeMetricName)
  * `unescape ds`          the passes in the order of the escape-code table
  * `splitAtUnescaped c`   walkToUnescapedChar: the text up to the first `c` that stands behind an EVEN run
                           of backslashes (run counted from the start of the scan), and the text after it
  * `representable ds`     the strings the line protocol can carry in a position that is followed by a
                           structural delimiter: every backslash run directly before a delimiter character
                           of the string, and the run at its end, is even
-/
namespace LinVerif.Escape

def bs : Char := '\\'

def escape (ds : List Char) : List Char → List Char
  | [] => []
  | a :: rest => if ds.contains a then bs :: a :: escape ds rest else a :: escape ds rest

def unescapeOne (c : Char) : List Char → List Char
  | [] => []
  | [a] => [a]
  | a :: b :: rest => if a = bs ∧ b = c then c :: unescapeOne c rest else a :: unescapeOne c (b :: rest)

def unescape (ds : List Char) (s : List Char) : List Char := ds.foldl (fun acc c => unescapeOne c acc) s

def splitAtUnescaped (c : Char) : Nat → List Char → Option (List Char × List Char)
  | _, [] => none
  | run, a :: rest =>
    if a = c ∧ run % 2 = 0 then some ([], rest)
    else (splitAtUnescaped c (if a = bs then run + 1 else 0) rest).map (fun p => (a :: p.1, p.2))

def representable (ds : List Char) : Nat → List Char → Bool
  | run, [] => run % 2 == 0
  | run, a :: rest =>
    if a = bs then representable ds (run + 1) rest
    else if ds.contains a then run % 2 == 0 && representable ds 0 rest
    else representable ds 0 rest

end LinVerif.Escape
