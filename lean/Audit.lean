/-
Audit of compiled property modules: `lake env lean --run Audit.lean <Module> [<Module> ...]`.
For every theorem declared in each given module prints one JSON line
  {"module":..,"theorem":..,"axioms":[..]}
and one summary line {"module":..,"theorems":N,"support_theorems":M} where M counts the
theorems of the LinVerif.* modules in the import closure (the lemmas the property theorems rest on).
The axioms are collected from the proof terms in the compiled environment (same traversal as
`#print axioms`).
-/
import Lean
open Lean

def jsonStr (s : String) : String := "\"" ++ (s.replace "\\" "\\\\").replace "\"" "\\\"" ++ "\""

def isInternalName : Name → Bool
  | .str p s => s.startsWith "_" || s.startsWith "match_" || s.startsWith "proof_" || s == "eq_1" || s == "eq_def"
      || s.startsWith "eq_" || s == "sizeOf_spec" || s == "injEq" || s == "inj" || s == "noConfusion" || isInternalName p
  | .num p _ => isInternalName p
  | .anonymous => false

/-- all axioms reachable from `c` (own traversal of the kernel environment; shared visited set) -/
partial def collectAx (env : Environment) (c : Name) (st : NameSet × NameSet) : NameSet × NameSet :=
  let (seen, axs) := st
  if seen.contains c then st else
  let seen := seen.insert c
  let go (es : List Expr) (st : NameSet × NameSet) : NameSet × NameSet :=
    es.foldl (fun st e => e.getUsedConstants.foldl (fun st n => collectAx env n st) st) st
  match env.find? c with
  | some (.axiomInfo v)  => go [v.type] (seen, axs.insert c)
  | some (.defnInfo v)   => go [v.type, v.value] (seen, axs)
  | some (.thmInfo v)    => go [v.type, v.value] (seen, axs)
  | some (.opaqueInfo v) => go [v.type, v.value] (seen, axs)
  | some (.quotInfo _)   => (seen, axs)
  | some (.ctorInfo v)   => go [v.type] (seen, axs)
  | some (.recInfo v)    => go [v.type] (seen, axs)
  | some (.inductInfo v) => v.ctors.foldl (fun st n => collectAx env n st) (go [v.type] (seen, axs))
  | none                 => (seen, axs)

unsafe def auditModule (modName : Name) : IO Unit := do
  let env ← importModules #[{ module := modName }] {} (trustLevel := 0) (loadExts := false)
  let some modIdx := env.getModuleIdx? modName | throw (IO.userError s!"module {modName} not found")
  let linIdxs : Array Nat := Id.run do
    let mut r := #[]
    for h : i in [0:env.header.moduleNames.size] do
      let n := env.header.moduleNames[i]
      if n.getRoot == `LinVerif then r := r.push i
    return r
  let mut nThm := 0
  let mut nSupport := 0
  let consts := env.constants.toList
  for (n, ci) in consts do
    match ci with
    | .thmInfo _ =>
      match env.getModuleIdxFor? n with
      | some idx =>
        if idx == modIdx then
          if !isInternalName n then
            let (_, ax) := collectAx env n ({}, {})
            let axs := (ax.toArray.qsort Name.lt).toList.map (fun a => jsonStr a.toString)
            IO.println s!"\{\"module\":{jsonStr modName.toString},\"theorem\":{jsonStr n.toString},\"axioms\":[{",".intercalate axs}]}"
            nThm := nThm + 1
        else if linIdxs.contains idx.toNat then
          if !isInternalName n then nSupport := nSupport + 1
      | none => pure ()
    | _ => pure ()
  IO.println s!"\{\"module\":{jsonStr modName.toString},\"theorems\":{nThm},\"support_theorems\":{nSupport}}"

unsafe def main (args : List String) : IO UInt32 := do
  initSearchPath (← findSysroot)
  for a in args do
    auditModule a.toName
  return 0
